"""C02 — the minimised objective is the documented separable least-squares problem.

spec/Objective.tla evaluates the staged pipeline exactly on lattice cases (all feature combinations),
checks the property's statement as invariants and emits the exact expected artefacts; the real
Optimizer.objective_function must reproduce the whole penalty vector entry for entry (length, order,
values), the additional penalties, the reduced label lists per index and the clp count; groups must
contribute independently.
"""
from __future__ import annotations

import copy
import hashlib
import json
import random
import warnings

from .core import Check, MachineryError, seed
from .objective import close, expected_penalty_vector, gen_case, in_premise, tlc_expected, why_not


def features(case, exp_groups=None):
    f = set()
    for g in case["groups"]:
        f.add("link=" + {True: "true", False: "false", None: "auto"}[g["link"]])
        if g.get("residual_function") == "non_negative_least_squares":
            f.add("nnls")
    if len(case["groups"]) > 1:
        f.add("groups>1")
    for d in case["datasets"]:
        if d.get("scale", 1) != 1:
            f.add("dataset-scale")
        if d.get("weight"):
            f.add("dataset-weight")
        if d.get("gmcs"):
            f.add("full-model")
        if d.get("transposed"):
            f.add("transposed")
        if len(d["mcs"]) > 1:
            f.add("megacomplexes>1")
        if any(m.get("scale", 1) != 1 for m in d["mcs"]):
            f.add("megacomplex-scale")
        if any(m.get("idx") for m in d["mcs"]):
            f.add("index-dependent")
    if len(case["datasets"]) > 1:
        f.add("datasets>1")
    for k in ("relations", "constraints", "penalties", "weights"):
        if case.get(k):
            f.add(k)
    return sorted(f)


def case_id(case):
    return hashlib.sha1(json.dumps(case, sort_keys=True).encode()).hexdigest()[:10]


def subcase(case, gi):
    g = case["groups"][gi]
    c = copy.deepcopy(case)
    c["groups"] = [copy.deepcopy(g)]
    c["datasets"] = [d for d in c["datasets"] if d["group"] == g["label"]]
    names = {d["label"] for d in c["datasets"]}
    c["weights"] = [w for w in c.get("weights", []) if set(w["datasets"]) <= names]
    return c


def check_case(chk: Check, case, exp, *, groups_independent=True, exp_variant=None):
    import numpy as np
    from .objective import real_objective
    feats = features(case)
    cid = case_id(case)
    rep = {"engine": "c02", "case": case}
    chk.evaluations += 1
    try:
        pen, o, w = real_objective(case, free_model_params=True)
    except Exception as ex:  # noqa: BLE001
        chk.violation(f"Objective[raises {type(ex).__name__}]: {feats}", f"objective_function raised {type(ex).__name__}: {str(ex)[:300]} on an in-premise case {cid}", rep)
        return
    chk.traces += 1
    orders = {gi: [float(v) for v in g._data_provider.aligned_global_axis] for gi, g in enumerate(o._optimization_groups)
              if hasattr(g._data_provider, "aligned_global_axis")}
    vec, tags, add = expected_penalty_vector(exp, orders)
    pen = np.asarray(pen, dtype=float)
    if len(pen) != len(vec):
        chk.violation(f"Objective[length]: {feats}", f"penalty vector has {len(pen)} entries, specification {len(vec)} (case {cid})", rep)
        return
    for j, (a, b) in enumerate(zip(pen, vec)):
        if not close(float(a), b):
            kind = tags[j][0]
            chk.violation(f"Objective[{kind} entry]: {feats}",
                          f"penalty vector entry {j} (provenance {tags[j]}) is {float(a)!r}, specification {b} = {float(b)!r}; case {cid}; full: impl {pen.tolist()} spec {[float(v) for v in vec]}", rep)
            return
    # additional penalties, clp count, label lists per block
    groups = o._optimization_groups
    if len(groups) != len(exp):
        chk.violation(f"Objective[groups]: {feats}", f"{len(groups)} optimisation groups, specification {len(exp)}", rep)
        return
    for gi, (grp, e) in enumerate(zip(groups, exp)):
        got_add = [float(v) for v in grp.get_additional_penalties()]
        if len(got_add) != len(add[gi]) or not all(close(a, b) for a, b in zip(got_add, add[gi])):
            chk.violation(f"Objective[additional penalties]: {feats}", f"group {gi}: additional penalties {got_add}, specification {[float(v) for v in add[gi]]} (case {cid})", rep)
        if grp.number_of_clps != e["nclps"]:
            chk.violation(f"Objective[number_of_clps]: {feats}", f"group {gi}: number_of_clps {grp.number_of_clps}, specification {e['nclps']} (case {cid})", rep)
        mp = grp._matrix_provider
        linked = type(mp).__name__ == "MatrixProviderLinked"
        if linked != e["linked"]:
            chk.violation(f"Objective[link decision]: {feats}", f"group {gi}: linked={linked}, specification {e['linked']} (case {cid})", rep)
            continue
        names = [d["label"] for d in case["datasets"] if d["group"] == case["groups"][gi]["label"]]
        for bi, b in enumerate(e["blocks"]):
            if b["kind"] != "index":
                continue
            if linked:
                order = orders.get(gi) or []
                if float(b["g"]) not in order:
                    chk.violation(f"Objective[aligned axis]: {feats}", f"group {gi}: aligned point {b['g']} missing from the aligned axis {order} (case {cid})", rep)
                    continue
                ii = order.index(float(b["g"]))      # the implementation's position of this aligned point
                full = list(mp.aligned_full_clp_labels[ii])
                red = list(mp.get_aligned_matrix_container(ii).clp_labels)
            else:
                k, li, _ = b["members"][0]
                full = list(mp.get_matrix_container(names[k - 1]).clp_labels)
                red = list(mp.get_prepared_matrix_container(names[k - 1], li - 1).clp_labels)
            # the order of merged labels is not part of the property (C06: outputs follow their labels): compare as sets, no duplicates
            if sorted(full) != sorted(b["labels"]) or sorted(red) != sorted(b["reduced"]) or len(set(full)) != len(full):
                chk.violation(f"Objective[labels]: {feats}", f"group {gi} block {bi}: labels {full} reduced {red}; specification {b['labels']} reduced {b['reduced']} (case {cid})", rep)
    # every value of the non-linear parameters: evaluate the SAME optimizer at a second parameter point and again at the first
    if exp_variant is not None:
        from .lattice import variant, x_of
        case1 = variant(case)
        labels1, x1 = x_of(case1)
        if list(labels1) != list(o._free_parameter_labels):
            raise MachineryError("variant changes the parameter labels")
        vec1, tags1, _ = expected_penalty_vector(exp_variant, orders)
        try:
            with warnings.catch_warnings():
                warnings.simplefilter("ignore")
                pen1 = np.asarray(o.objective_function(x1), dtype=float)
                pen0 = np.asarray(o.objective_function(o._verif_x0), dtype=float)
        except Exception as ex:  # noqa: BLE001
            chk.violation(f"Objective[second evaluation raises {type(ex).__name__}]: {feats}", f"second evaluation raised {type(ex).__name__}: {str(ex)[:300]} (case {cid})", rep)
            return
        chk.traces += 2
        if len(pen1) != len(vec1) or not all(close(float(a), b) for a, b in zip(pen1, vec1)):
            j = next((j for j, (a, b) in enumerate(zip(pen1, vec1)) if not close(float(a), b)), -1)
            chk.violation(f"Objective[second parameter point]: {feats}",
                          f"evaluated after another point: entry {j} ({tags1[j] if 0 <= j < len(tags1) else 'length'}) impl {pen1.tolist()} spec {[float(v) for v in vec1]}; parameters {dict(zip(labels1, x1.tolist()))} (case {cid})", rep)
        if pen0.shape != pen.shape or not np.array_equal(pen0, pen):
            chk.violation(f"Objective[return to first point]: {feats}", f"objective at x0 after visiting x1 differs from the first evaluation: {pen0.tolist()} vs {pen.tolist()} (case {cid})", rep)
    # groups contribute independently: the slice of group g equals the vector of the scheme containing only group g
    if groups_independent and len(case["groups"]) > 1:
        start = 0
        for gi, e in enumerate(exp):
            v1, _, _ = expected_penalty_vector([e], {0: orders.get(gi)})
            sub = subcase(case, gi)
            try:
                p1, _, _ = real_objective(sub)
                sl = pen[start:start + len(v1)]
                if len(p1) != len(sl) or not np.allclose(p1, sl, rtol=1e-12, atol=1e-12):
                    chk.violation(f"Objective[groups independent]: {feats}", f"group {gi} contributes {sl.tolist()} in the full scheme but {np.asarray(p1).tolist()} alone (case {cid})", rep)
            except Exception as ex:  # noqa: BLE001
                chk.violation(f"Objective[groups independent raises]: {feats}", f"group {gi} alone raised {type(ex).__name__}: {ex}", rep)
            start += len(v1)
    if len(feats) >= 3 and any(v != 0 for v in vec):
        chk.nontriv(cid)


def exp_var_of(pos, exp_var):
    e = exp_var.get(pos)
    return e if e is not None and in_premise(e) else None


def run(tier: str, replay=None) -> int:
    chk = Check("C02", tier)
    rng = random.Random(seed() + 202)
    chk.rule = ("seeded random lattice schemes over the full feature product (1-4 datasets, 1-2 groups, link true/false/auto, index dependence, "
                "scales, weights, relations, constraints, penalties, VP/NNLS, full models), each evaluated exactly by spec/Objective.tla; cases outside "
                "the premise (rank deficient / no labels left, D8) or outside the 32-bit safety bound are counted and skipped; non-trivial = at least 3 "
                "interacting features and a non-zero residual; distinct = distinct case")
    chk.assumptions = [
        "D1 equal-area penalties in an unlinked group are evaluated once per dataset",
        "D2 model-weight and penalty interval bounds are generated on axis points or infinite, where nearest-point slicing and closed membership coincide (general intervals: C08)",
        "D6 relation chains are not generated; D7 a label is not both relation target and constraint target",
        "D8 rank deficient reduced matrices are outside C01's premise",
        "D13 constraints/relations/penalties are not generated together with full-model datasets (their meaning there is not documented)",
        "linked groups use tolerance 0 here (tolerances: C09)",
        "float vs exact: 1e-9 relative to max(1, |value|)",
    ]
    if replay:
        from .lattice import variant
        case = replay["replay"]["case"]
        v = variant(case)
        exp, tot = tlc_expected([case] + ([v] if v else []), shards=1)
        chk.add_tlc(tot)
        if in_premise(exp[0]):
            check_case(chk, case, exp[0], exp_variant=exp[1] if v and in_premise(exp[1]) else None)
        else:
            chk.skip("replayed case outside premise: " + ",".join(why_not(exp[0])))
        return chk.finish()
    from .lattice import variant
    n = 1500 if tier == "quick" else 15000
    from .objective import alignment_family
    fam = alignment_family()
    cases = [gen_case(rng) for _ in range(n - len(fam))] + fam
    variants = [variant(c) for c in cases]
    vidx = [i for i, v in enumerate(variants) if v is not None]
    exp_all, tot = tlc_expected(cases + [variants[i] for i in vidx], shards=8 if tier == "quick" else 14)
    exp = exp_all[:n]
    exp_var = {i: e for i, e in zip(vidx, exp_all[n:])}
    chk.add_tlc(tot, "ObjectiveCases")
    chk.exhaustive = False
    nin = 0
    for case_pos, (case, e) in enumerate(zip(cases, exp)):
        if not in_premise(e):
            for r in why_not(e):
                chk.skip(f"outside premise: {r}")
            continue
        nin += 1
        check_case(chk, case, e, exp_variant=exp_var_of(case_pos, exp_var))
        if nin % 211 == 1:
            chk.sample({"features": features(case), "case": case})
    if nin < n // 4:
        raise MachineryError(f"only {nin} of {n} generated cases are inside the premise")
    chk.extra["cases_in_premise"] = nin
    # exhaustive core enumerated by TLC itself
    from .objective import enum_core
    from .tlc import require_actions
    res, items = enum_core()
    chk.add_tlc(res, "ObjectiveEnum")
    if len(items) < 30000 or len(items) >= res["distinct"]:       # vacuity: every complete configuration is a distinct state and is emitted
        raise MachineryError(f"ObjectiveEnum emitted {len(items)} configurations for {res['distinct']} states")
    chk.extra["enumerated_core_total"] = len(items)
    pick = items if tier == "thorough" else [it for k, it in enumerate(items) if (k + seed()) % 10 == 0]
    nen = 0
    for case, e in pick:
        if not in_premise(e):
            for r in why_not(e):
                chk.skip(f"enumerated core outside premise: {r}")
            continue
        nen += 1
        check_case(chk, case, e, groups_independent=False)
    chk.extra["enumerated_core_replayed"] = nen
    return chk.finish()
