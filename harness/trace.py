"""Recording traces from the real code (subprocess with hooks on) and shared trace utilities."""
from __future__ import annotations

import json
import os
import subprocess
import sys
import tempfile
from pathlib import Path

from .core import REPO, VERIF, MachineryError

GUARD = "GLOTARAN_VERIF_TRACE"


def record(cmd: list[str], cwd: str | None = None, timeout: int = 3600, env_extra: dict | None = None, must_succeed: bool = True) -> list[dict]:
    """Run cmd with hooks on; return the list of recorded events (all processes, file order)."""
    td = tempfile.mkdtemp(prefix="verif_trace_")
    path = Path(td) / "trace.ndjson"
    env = dict(os.environ)
    env[GUARD] = str(path)
    env["PYTHONPATH"] = f"{VERIF}:{REPO}"
    env.setdefault("PYTHONHASHSEED", "0")
    if env_extra:
        env.update(env_extra)
    try:
        p = subprocess.run(cmd, cwd=cwd, env=env, capture_output=True, text=True, timeout=timeout)
        if must_succeed and p.returncode != 0:
            raise MachineryError(f"traced command failed rc={p.returncode}: {' '.join(cmd)}\n{p.stdout[-2000:]}\n{p.stderr[-2000:]}")
        events = []
        if path.exists():
            with open(path) as f:
                for line in f:
                    line = line.strip()
                    if line:
                        events.append(json.loads(line))
        return events
    finally:
        import shutil
        shutil.rmtree(td, ignore_errors=True)


def py(*args: str) -> list[str]:
    return [sys.executable, "-W", "ignore", *args]


def pytest_cmd(*paths: str) -> list[str]:
    return [sys.executable, "-m", "pytest", "-q", "-x", "-p", "no:cacheprovider", "--timeout=900", *paths]
