"""Runs fault plans / invalid schemes on the real glotaran.optimization.optimize.optimize and observes.

Used in-process by harness/c15.py (hooks off) and as a subprocess with hooks on
(`python -m harness.c15_driver plans.json`): then every run is bracketed by `call_begin` / `call_end`
events, the latter carrying the observation.
"""
from __future__ import annotations

import hashlib
import io
import json
import sys
import warnings

import numpy as np

from .c15_models import FAULT
from .c15_models import InjectedFault
from .c15_models import fault_scheme

INVALID_KINDS = ["missing_data", "no_parameters", "unknown_method", "unknown_residual_function"]


def _h(b: bytes) -> str:
    return hashlib.blake2b(b, digest_size=8).hexdigest()


def snapshot(scheme) -> dict:
    """Digest per component of everything the caller handed in."""
    snap = {}
    p = scheme.parameters
    if p is None:
        snap["parameters"] = "None"
    else:
        rows = [(q.label, repr(float(q.value)), repr(float(q.minimum)), repr(float(q.maximum)), bool(q.vary), bool(q.non_negative),
                 q.expression, repr(q.standard_error)) for q in p.all()]
        snap["parameters"] = _h(json.dumps(rows).encode())
        snap["parameters.values"] = _h(json.dumps([r[:2] for r in rows]).encode())
        snap["parameters.bounds"] = _h(json.dumps([(r[0], r[2], r[3]) for r in rows]).encode())
        snap["parameters.flags"] = _h(json.dumps([(r[0], r[4], r[5]) for r in rows]).encode())
        snap["parameters.expressions"] = _h(json.dumps([(r[0], r[6]) for r in rows]).encode())
    def _strkeys(x):      # k-matrix entries are keyed by tuples
        if isinstance(x, dict):
            return {(k if isinstance(k, str) else repr(k)): _strkeys(v) for k, v in x.items()}
        if isinstance(x, (list, tuple)):
            return [_strkeys(v) for v in x]
        return x
    snap["model"] = _h(json.dumps(_strkeys(scheme.model.as_dict()), sort_keys=True, default=repr).encode())
    for label in sorted(scheme.data):
        ds = scheme.data[label]
        for var in ("data", "weight"):
            if var in ds:
                a = ds[var]
                snap[f"data[{label}].{var}"] = _h(np.ascontiguousarray(a.values).tobytes() + repr(a.dims).encode() + repr(a.values.dtype).encode())
        for c in sorted(ds.coords):
            snap[f"data[{label}].coord[{c}]"] = _h(np.ascontiguousarray(ds.coords[c].values).tobytes())
    snap["data.labels"] = _h(json.dumps(sorted(scheme.data)).encode())
    snap["options"] = _h(json.dumps([scheme.clp_link_tolerance, scheme.clp_link_method, scheme.maximum_number_function_evaluations,
                                     scheme.add_svd, scheme.ftol, scheme.gtol, scheme.xtol, scheme.optimization_method, scheme.result_path],
                                    default=repr).encode())
    return snap


def snapshot_diff(a: dict, b: dict) -> list[str]:
    return sorted(k for k in set(a) | set(b) if a.get(k) != b.get(k))


def build_scheme(plan: dict):
    s = plan.get("scheme", {})
    invalid = set(plan.get("invalid", []))
    kw = dict(method=s.get("method", "TrustRegionReflection"), ndatasets=s.get("ndatasets", 1),
              residual_function=s.get("residual", "variable_projection"), link_clp=s.get("link"), max_nfev=s.get("max_nfev"),
              tol=s.get("tol", 1e-3), start=tuple(s.get("start", (0.55, 1.1))), nonneg=bool(s.get("nonneg", False)))
    if "unknown_method" in invalid:
        kw["method"] = "SimulatedAnnealing"
    if "unknown_residual_function" in invalid:
        kw["residual_function"] = "least_absolute_deviation"
    scheme = fault_scheme(**kw)
    if "missing_data" in invalid:
        scheme.data = {k: v for k, v in scheme.data.items() if k != "d1"}
    if "no_parameters" in invalid:
        scheme.parameters = None
    return scheme


def _rates_of(parameters):
    return tuple(float(parameters.get(f"k.{i}").value) for i in (1, 2))


def run_plan(plan: dict, emit=None) -> dict:
    """Execute one plan on the real code; returns the observation."""
    from glotaran.optimization.optimize import optimize
    from glotaran.optimization.optimizer import Optimizer

    FAULT.reset()
    scheme = build_scheme(plan)
    before = snapshot(scheme)
    verbose, rais = bool(plan.get("verbose", False)), bool(plan.get("raise", False))
    real_stdout = sys.stdout
    sink_a, sink_b = io.StringIO(), io.StringIO()
    obs: dict = {"outcome": "", "exc": "", "original": False, "msg": ""}
    result = None
    FAULT.reset(int(plan.get("k", 0)), plan.get("kind", "exception"))
    try:
        with warnings.catch_warnings(record=True) as caught:
            warnings.simplefilter("always")
            try:
                if plan.get("swap"):
                    # the caller replaces sys.stdout between Optimizer() and optimize()
                    sys.stdout = sink_a
                    expected_stdout = sink_b
                    if emit:
                        emit("call_begin", run=plan.get("run", 0), stdout=str(id(sink_b)), invalid=plan.get("invalid", []),
                             raise_exception=rais, verbose=verbose)
                    opt = Optimizer(scheme, verbose, rais)
                    sys.stdout = sink_b
                    opt.optimize()
                    result = opt.create_result()
                else:
                    sys.stdout = sink_a
                    expected_stdout = sink_a
                    if emit:
                        emit("call_begin", run=plan.get("run", 0), stdout=str(id(sys.stdout)), invalid=plan.get("invalid", []),
                             raise_exception=rais, verbose=verbose)
                    result = optimize(scheme, verbose, rais)
                obs["outcome"] = "result"
            except Exception as e:  # noqa: BLE001
                obs["outcome"] = "exception"
                obs["exc"] = type(e).__name__
                obs["msg"] = str(e)[:200]
                if isinstance(e, InjectedFault):
                    obs["original"] = e is FAULT.exc
                else:
                    # an exception raised by scipy / numpy on non-finite input: unchanged = not wrapped, not chained
                    obs["original"] = e.__cause__ is None and (e.__context__ is None or e.__suppress_context__)
            stdout_now = sys.stdout
            obs["stdout_restored"] = stdout_now is expected_stdout
            obs["stdout_is"] = "expected" if stdout_now is expected_stdout else "construction-time" if stdout_now is sink_a else type(stdout_now).__name__
        obs["warnings"] = [str(w.message)[:120] for w in caught if "Optimization failed" in str(w.message)]
    finally:
        stdout_id_now = str(id(sys.stdout))
        sys.stdout = real_stdout
    after = snapshot(scheme)
    obs["scheme_changed"] = snapshot_diff(before, after)
    log = FAULT.log
    obs["calls"] = FAULT.calls
    fired = [e for e in log if e["fault"]]
    obs["fired_at"] = fired[0]["n"] if fired else 0
    per = max(1, int(plan.get("scheme", {}).get("ndatasets", 1)))      # calculate_matrix calls per evaluation

    def ev_index(n):
        return -(-n // per)
    if not fired:
        obs["fired"] = "none"
    else:
        f = fired[0]
        if ev_index(f["n"]) == 1:
            obs["fired"] = "first"
        elif f["in_tee"]:
            obs["fired"] = "scipy"
        else:
            late = sorted({ev_index(e["n"]) for e in log if not e["in_tee"] and ev_index(e["n"]) > 1})
            obs["fired"] = "final" if late and late[0] == ev_index(f["n"]) else "result"
    ok_rates = {e["rates"] for e in log if not e["fault"]}
    ok_before_final = {e["rates"] for e in log if not e["fault"] and e["in_tee"]}
    obs["printed"] = bool(sink_a.getvalue() or sink_b.getvalue())
    if result is not None:
        obs["success"] = bool(result.success)
        obs["reason"] = str(result.termination_reason)[:200]
        fault_msg = str(FAULT.exc) if FAULT.exc is not None else None
        warned = [w[len("Optimization failed:\n\n"):] for w in obs["warnings"]]
        obs["reason_is_error"] = (fault_msg is not None and result.termination_reason == fault_msg) or \
                                 (not result.success and any(result.termination_reason[:90] == w[:90] for w in warned))
        obs["nhist"] = int(result.parameter_history.number_of_records)
        obs["nfev"] = int(result.number_of_function_evaluations)
        rates = _rates_of(result.optimized_parameters)
        obs["params_evaluated_ok"] = rates in ok_rates
        obs["params_evaluated_ok_in_scipy"] = rates in ok_before_final
        # datasets come from the same parameter set: the matrix in the result is the model matrix at the reported parameters
        cons = True
        for label, ds in result.data.items():
            m = np.exp(-np.outer(ds.coords["time"].values, np.asarray(rates)))
            got = ds["matrix"].values
            cons &= got.shape == m.shape and bool(np.array_equal(got, m))
            cons &= bool(np.allclose(ds["fitted_data"].values + ds["residual"].values, ds["data"].values, rtol=0, atol=1e-9, equal_nan=True))
        obs["data_consistent"] = bool(cons)
        obs["initial_is_callers"] = result.initial_parameters is scheme.parameters
    n_ok = sum(1 for e in log if not e["fault"] or e["fault"] == "nan")
    obs["n_returned_calls"] = n_ok
    if emit:
        emit("call_end", run=plan.get("run", 0), exc=obs["exc"], original=obs["original"], stdout=stdout_id_now if obs["stdout_restored"] else "changed",
             fault_msg=str(FAULT.exc) if FAULT.exc is not None else "", obs=obs, plan=plan)
    return obs


def main(path: str):
    from glotaran.utils import verif_trace as vt
    plans = json.loads(open(path).read())
    for plan in plans:
        run_plan(plan, emit=vt.emit)


if __name__ == "__main__":
    main(sys.argv[1])
