"""code -> spec for C18: executions recorded from the real code (hooks on) validated by
spec/SaveProtocolTrace.tla (one trace per save_* / protect_from_overwrite call) and
spec/ProjectRunsTrace.tla (one trace per ProjectResultRegistry.save / latest-result lookup)."""
from __future__ import annotations

import json
import re
import tempfile
from pathlib import Path

from .core import REPO, Check, MachineryError, seed
from .tlc import run_tlc
from .trace import py, pytest_cmd, record

SAVE_INVARIANTS = ["Refusal", "RefusalFirst", "RefusedOnlyWhenDue", "OverwriteOnlyIfAsked", "PreexistingUntouched", "UnrelatedUntouched", "SourcePathOnlyOnSuccess"]
RUN_SPECIFIER = re.compile(r".+_run_\d{4}$")


# ------------------------------------------------------------------------------ save calls
def _ts(e) -> str:
    if e["kind"] == "file":
        return "file"
    if e["kind"] == "dir":
        return "nonemptydir" if e["nonempty"] else "emptydir"
    return "absent"


def _inferred_format(target: str) -> str:
    """The registry key save_* looks up when no format is given (io_plugin_utils.infer_file_format)."""
    ext = Path(target).suffix.lstrip(".")
    return "yaml" if ext in ("yml", "") else ext


def save_calls(events: list[dict]):
    """Split the event stream into one trace per call.  A call is identified by (pid, id of its frame); a frame id is
    only reused after the frame died, so a second save_begin with the same id closes the first as 'never returned'."""
    open_calls: dict = {}
    calls: list = []
    innermost: dict = {}     # pid -> the call begun last; the first registry lookup after its begin is the call's own
    for e in events:
        ev = e["ev"]
        if ev == "save_begin":
            c = {"fn": e["fn"], "fmt": e["fmt"] or "", "infer": e["fmt"] is None, "allow": bool(e["allow"]), "target": e["target"], "steps": [], "seq": e["seq"], "pid": e["pid"],
                 "open": True, "key": e["fmt"] or _inferred_format(e["target"])}
            calls.append(c)
            open_calls[(e["pid"], e["cid"])] = c
            innermost[e["pid"]] = c
        elif ev == "lookup":
            c = innermost.get(e["pid"])
            if c is not None and c["open"] and e["key"] == c["key"] and not any(s["ev"] in ("lookup", "plugin", "end") for s in c["steps"]):
                c["steps"].append({"ev": "lookup", "err": e["err"]})
        elif ev == "protect":
            c = open_calls.get((e["pid"], e["caller"]))
            step = {"ev": "protect", "allow": bool(e["allow"]), "ts": _ts(e), "out": "pass" if e["out"] == "pass" else "refuse"}
            if c is not None and c["target"] == e["path"] and not any(s["ev"] == "protect" for s in c["steps"]):
                c["steps"].append(step)
                if step["out"] == "refuse":
                    c["open"] = False       # the call is over: later registry lookups are somebody else's
            else:   # protect_from_overwrite used on its own
                calls.append({"fn": "protect_from_overwrite", "fmt": "", "infer": False, "allow": bool(e["allow"]), "target": e["path"], "steps": [step], "seq": e["seq"],
                              "pid": e["pid"], "alone": True})
        elif ev in ("save_plugin", "save_end"):
            c = open_calls.get((e["pid"], e["cid"]))
            if c is not None and c["fn"] == e["fn"]:
                c["steps"].append({"ev": "plugin" if ev == "save_plugin" else "end"})
                if ev == "save_end":
                    c["open"] = False
                    del open_calls[(e["pid"], e["cid"])]
    traces, unmodelled = [], 0
    for c in calls:
        prot = next((s for s in c["steps"] if s["ev"] == "protect"), None)
        if prot is None and not c["steps"]:
            unmodelled += 1     # raised before protect_from_overwrite reported anything (e.g. the parent is a file)
            continue
        # without a protect event the target state is unknown; the acceptor rejects such a trace at its first step anyway
        evs = [{"ev": "begin", "fn": c["fn"], "fmt": c["fmt"], "infer": c["infer"], "allow": c["allow"], "ts": prot["ts"] if prot else "absent"}] + c["steps"]
        if not c.get("alone") and evs[-1]["ev"] != "end":
            evs.append({"ev": "raised"})
        traces.append({"events": evs, "target": c["target"], "seq": c["seq"]})
    return traces, unmodelled


def _verdict(res, n):
    m = re.search(r'<<\s*"VERDICT",\s*<<(.*?)>>\s*>>', res["stdout"], re.S)
    if not m:
        return None
    body = m.group(1).strip()
    v = [int(x) for x in body.split(",")] if body else []
    if len(v) != n:
        raise MachineryError("trace acceptor: verdict length mismatch")
    return v


def validate_save(traces: list[dict]):
    cfg = "\n".join([
        "SPECIFICATION TraceSpec", "CONSTANTS", "  DataFns = {}", "  ProjectFns = {}", "  DataFormats = {}", "  ProjectFormats = {}",
        '  Unknown = "verif_unknown"', '  Failing = "verif_failing"', "  TStates = {}",
        "CONSTRAINT Progress", "POSTCONDITION Accepted", "CHECK_DEADLOCK FALSE",
        *[f"INVARIANT {i}" for i in SAVE_INVARIANTS], "PROPERTY TNoWriteBeforeCheck"]) + "\n"
    with tempfile.TemporaryDirectory(prefix="verif_c18t_") as td:
        f = Path(td) / "traces.json"
        f.write_text(json.dumps({"traces": [{"events": t["events"]} for t in traces]}))
        res = run_tlc("SaveProtocolTrace", cfg, workers=1, timeout=1200, env={"TRACE_FILE": str(f)}, coverage=False, allow_violation=True)
    v = _verdict(res, len(traces))
    if v is None:
        if res["violated"]:
            return None, res
        raise MachineryError("SaveProtocolTrace: no VERDICT line\n" + res["stdout"][-2000:])
    return v, res


def check_save_traces(chk: Check, source: str, traces: list[dict]):
    # identical abstract traces are validated once
    groups: dict = {}
    for t in traces:
        groups.setdefault(json.dumps(t["events"], sort_keys=True), []).append(t)
    uniq = [g[0] for g in groups.values()]
    verdict, res = validate_save(uniq)
    chk.add_tlc(res, f"SaveProtocolTrace[{source}]")
    if verdict is None:
        chk.violation(f"SaveProtocolTrace[{source}]: invariant {res['violated']}", f"a recorded save call violates {res['violated']}: " + res["stdout"][-800:],
                      {"engine": "c18-save-trace", "source": source, "traces": uniq})
        return
    for (k, g), v in zip(groups.items(), verdict):
        chk.traces += len(g)
        chk.evaluations += len(g) * len(g[0]["events"])
        evs = g[0]["events"]
        if evs[0]["ts"] in ("file", "nonemptydir") or any(e.get("err") for e in evs):
            chk.nontriv(("save-trace", source, k))
        if v != 0:
            def show(e):
                return e["ev"] + (f"({e['out']})" if "out" in e else "") + (f"({e['err'] or 'found'})" if "err" in e else "")
            chk.violation(f"SaveProtocolTrace: {evs[0]['fn']} target={evs[0]['ts']} allow_overwrite={evs[0]['allow']}: step {show(evs[v - 1])} after "
                          f"[{', '.join(show(e) for e in evs[:v - 1])}] is not a step of the specification",
                          f"[{source}] recorded call is not a behaviour of SaveProtocol (rejected at event {v} of {json.dumps(evs)}); {len(g)} such calls, first target {g[0]['target']}",
                          {"engine": "c18-save-trace", "source": source, "traces": [g[0]]})
    if uniq:
        chk.sample({"trace_source": source, "engine": "SaveProtocolTrace", "events": uniq[len(uniq) // 2]["events"], "calls_recorded": len(traces), "distinct": len(uniq)})


# ------------------------------------------------------------------------------ result runs
def run_traces(events: list[dict]):
    traces, skipped = [], 0
    for e in events:
        if e["ev"] == "run_created":
            name = e["name"]
            pat = re.compile(re.escape(name) + r"_run_(\d{4})$")
            own = sorted(int(m.group(1)) for x in e["existing"] if (m := pat.match(x)))
            traces.append({"ev": "optimize", "name": name, "n": 0, "own": own, "ret": e["chosen"], "err": "", "existing": e["existing"]})
        elif e["ev"] == "latest_lookup":
            asked = e["name"]
            ret = "<the results directory itself>" if e.get("isdir") else e["ret"]
            if RUN_SPECIFIER.match(asked):
                if any(x.startswith(asked + "_run_") for x in e["existing"]):
                    skipped += 1        # reads both as a result name and as a run specifier: either answer is allowed (see ProjectRuns.AmbigNames)
                    continue
                base, n = asked[:-9], int(asked[-4:])
                pat = re.compile(re.escape(base) + r"_run_(\d{4})$")
                own = sorted(int(m.group(1)) for x in e["existing"] if (m := pat.match(x)))
                traces.append({"ev": "get", "name": base, "n": n, "own": own, "ret": ret, "err": e["err"], "existing": e["existing"]})
            else:
                pat = re.compile(re.escape(asked) + r"_run_(\d{4})$")
                own = sorted(int(m.group(1)) for x in e["existing"] if (m := pat.match(x)))
                traces.append({"ev": "latest", "name": asked, "n": 0, "own": own, "ret": ret, "err": e["err"], "existing": e["existing"]})
    return traces, skipped


def _answer_class(t) -> str:
    """Symbolic class of a recorded answer (stable across run numbers)."""
    if t["err"]:
        return t["err"]
    ret, name = t["ret"], t["name"]
    if ret.startswith("<"):
        return "the results directory itself"
    m = re.match(re.escape(name) + r"_run_(\d{4})$", ret)
    if m:
        n = int(m.group(1))
        if t["ev"] == "optimize":
            return "a run number that is not the largest own + 1" + (" (existing run)" if n in t["own"] else "")
        return "the latest run of that name" if t["own"] and n == max(t["own"]) else ("an older run of that name" if n in t["own"] else "a run that does not exist")
    return "a run folder of another result name"


def validate_runs(traces: list[dict]):
    cfg = "\n".join([
        "SPECIFICATION TraceSpec", "CONSTANTS", "  Names <- TraceNames", "  AmbigNames = {}", "  Kinds = {}", "  MaxRuns = 1", "  MaxWrites = 0", "  MaxRemoves = 0", "  MaxFails = 0",
        "  Lookups = TRUE", "CONSTRAINT Progress", "POSTCONDITION Accepted", "CHECK_DEADLOCK FALSE",
        "INVARIANT RunKeyUnique", "INVARIANT LatestIsOwnMax", "INVARIANT GetIsExact"]) + "\n"
    with tempfile.TemporaryDirectory(prefix="verif_c18t_") as td:
        f = Path(td) / "traces.json"
        f.write_text(json.dumps({"traces": [{k: t[k] for k in ("ev", "name", "n", "own", "ret", "err")} for t in traces]}))
        res = run_tlc("ProjectRunsTrace", cfg, workers=1, timeout=1200, env={"TRACE_FILE": str(f)}, coverage=False, allow_violation=True)
    v = _verdict(res, len(traces))
    if v is None:
        if res["violated"]:
            return None, res
        raise MachineryError("ProjectRunsTrace: no VERDICT line\n" + res["stdout"][-2000:])
    return v, res


def check_run_traces(chk: Check, source: str, traces: list[dict]):
    groups: dict = {}
    for t in traces:
        groups.setdefault(json.dumps({k: t[k] for k in ("ev", "name", "n", "own", "ret", "err")}, sort_keys=True), []).append(t)
    uniq = [g[0] for g in groups.values()]
    verdict, res = validate_runs(uniq)
    chk.add_tlc(res, f"ProjectRunsTrace[{source}]")
    if verdict is None:
        chk.violation(f"ProjectRunsTrace[{source}]: invariant {res['violated']}", f"a recorded call violates {res['violated']}: " + res["stdout"][-800:],
                      {"engine": "c18-runs-trace", "source": source, "traces": uniq})
        return
    for (k, g), v in zip(groups.items(), verdict):
        chk.traces += len(g)
        chk.evaluations += len(g)
        t = g[0]
        if len({x.rsplit("_run_", 1)[0] for x in t["existing"]}) >= 2:
            chk.nontriv(("runs-trace", source, k))
        if v != 0:
            small = {kk: t[kk] for kk in ("ev", "name", "n", "own", "ret", "err")}
            call = {"optimize": "ProjectResultRegistry.save", "latest": "latest-result lookup", "get": "run-specifier lookup"}[t["ev"]]
            chk.violation(f"ProjectRunsTrace: {call} name={t['name']!r} -> {_answer_class(t)}; own runs {'exist' if t['own'] else 'none'}",
                          f"[{source}] recorded call is not a step of ProjectRuns: {json.dumps(small)} with run folders {t['existing']} ({len(g)} such calls)",
                          {"engine": "c18-runs-trace", "source": source, "traces": [t]})
    if uniq:
        t = uniq[len(uniq) // 2]
        chk.sample({"trace_source": source, "engine": "ProjectRunsTrace", "call": {kk: t[kk] for kk in ("ev", "name", "n", "own", "ret", "err")}, "calls_recorded": len(traces)})


# ------------------------------------------------------------------------------ sources
def collect(tier: str, cases: list[dict]):
    sources = []
    with tempfile.TemporaryDirectory(prefix="verif_c18d_") as td:
        step = 3 if tier == "quick" else 1
        f = Path(td) / "cases.json"
        f.write_text(json.dumps({"cases": cases[::step], "seed": seed(), "histories": 6 if tier == "quick" else 40}))
        sources.append(("driver", record(py("-m", "harness.c18_driver", str(f)), timeout=1800)))
    tests = ["glotaran/plugin_system/test"]
    if tier == "thorough":
        tests += ["glotaran/builtin/io", "glotaran/project/test"]
    sources.append(("repo-tests", record(pytest_cmd(*tests), cwd=str(REPO), must_succeed=False, timeout=3000)))
    return sources


def run(chk: Check, tier: str, cases: list[dict]):
    info = {}
    first_save = None
    for name, events in collect(tier, cases):
        straces, unmodelled = save_calls(events)
        rtraces, ambiguous = run_traces(events)
        if name == "driver" and (not straces or not rtraces):
            raise MachineryError("C18 trace driver produced no save / run events (hooks not active in $VERIF_REPO?)")
        if name == "repo-tests" and not straces:
            raise MachineryError("the traced repository tests produced no save events (hooks not active?)")
        info[name] = {"save_calls": len(straces), "save_calls_without_protect_event": unmodelled, "run_calls": len(rtraces), "ambiguous_specifier_lookups_skipped": ambiguous}
        if unmodelled:
            chk.skip(f"{name}: save calls that raised before protect_from_overwrite reported (not modelled)", unmodelled)
        check_save_traces(chk, name, straces)
        if rtraces:
            check_run_traces(chk, name, rtraces)
        if first_save is None:
            first_save = straces
    chk.extra["traces"] = info
    selftest(chk, first_save)


def selftest(chk: Check, traces):
    """Binding self-test: corrupted traces must be rejected."""
    refused = next(t for t in traces if t["events"][1].get("out") == "refuse" and t["events"][0]["fn"] != "protect_from_overwrite")
    ok = next(t for t in traces if [e["ev"] for e in t["events"]] == ["begin", "protect", "lookup", "plugin", "end"])
    bad1 = json.loads(json.dumps(refused))
    bad1["events"][1]["out"] = "pass"                         # occupied, not allowed, yet the check lets the call through
    bad1["events"] = bad1["events"][:2] + [{"ev": "lookup", "err": ""}, {"ev": "plugin"}, {"ev": "end"}]
    bad2 = json.loads(json.dumps(ok))
    bad2["events"][1], bad2["events"][2] = bad2["events"][2], bad2["events"][1]    # plugin looked up before the check
    bad3 = json.loads(json.dumps(refused))
    bad3["events"] = bad3["events"][:2] + [{"ev": "lookup", "err": ""}, {"ev": "raised"}]     # something happens after a refusal
    verdict, _ = validate_save([ok, bad1, bad2, bad3])
    if verdict is None or verdict[0] != 0 or not all(verdict[1:]):
        raise MachineryError(f"C18 trace binding self-test failed: verdict {verdict} for [good, passed-although-occupied, lookup-before-check, step-after-refusal]")
    good = {"ev": "optimize", "name": "x", "n": 0, "own": [0, 2], "ret": "x_run_0003", "err": ""}
    bad = [dict(good, ret="x_run_0002"), {"ev": "latest", "name": "x", "n": 0, "own": [0, 2], "ret": "x_run_0000", "err": ""},
           {"ev": "latest", "name": "x", "n": 0, "own": [], "ret": "<the results directory itself>", "err": ""}]
    v2, _ = validate_runs([dict(t, existing=[]) for t in [good] + bad])
    if v2 is None or v2[0] != 0 or not all(v2[1:]):
        raise MachineryError(f"C18 run-trace binding self-test failed: verdict {v2}")
    chk.extra["trace_binding_selftest"] = "3 corrupted save traces and 3 corrupted run traces rejected, the originals accepted"


def replay(chk: Check, r):
    if r["engine"] == "c18-save-trace":
        check_save_traces(chk, r.get("source", "replay"), r["traces"])
    else:
        check_run_traces(chk, r.get("source", "replay"), r["traces"])
