"""C20 — model validation is sound and complete for references.

spec/Validation.tla holds the hand-written reference schema of every builtin item type and the expected issue
set of a model; TLC enumerates (fan-out) every mutant of every base model (harness/c20_models.py) and checks
the model-level invariants; spec/ValidationEmit.tla emits every mutant with its expected issue sets.  Every
emitted mutant is built as a real glotaran Model (+ Parameters) and validated through every public route; the
projected set of reported issues must lie between the specification's must and may sets.
"""
from __future__ import annotations

import copy
import json
import os
import re
import tempfile
import traceback
import warnings
from pathlib import Path

from .c20_models import base_models
from .core import Check, MachineryError, seed
from .tlc import printed_json, require_actions, run_tlc

INVARIANTS = ["TypeOK", "BaseValid", "SoundAndComplete", "ValidFills", "GeneratedParametersSuffice", "InjectedFaultFound",
              "ReachableFaultBreaksFill"]
ACTIONS = ["PickBase", "Misspell", "DropReference", "DeleteItem", "DeleteParam", "Rename", "RenameParameter", "AppendMegacomplex",
           "DropPlainLabel"]
LIST_KINDS = ("clp_penalties", "clp_relations", "clp_constraints", "weights")


def cfg(maxmut: int, emit: bool = False) -> str:
    lines = ["SPECIFICATION Spec", "CONSTANTS", f"  MaxMut = {maxmut}", '  Wrong = "zz_undefined"', '  Renamed = "zz_renamed"',
             '  RenamedP = "zz.renamed"', "CHECK_DEADLOCK FALSE"]
    if emit:
        lines.append("ACTION_CONSTRAINT Emit")
    else:
        lines += [f"INVARIANT {i}" for i in INVARIANTS]
    return "\n".join(lines) + "\n"


# --------------------------------------------------------------------------- raw model <-> JSON for TLC
def _plain(v) -> bool:
    """Attributes handed to the specification: strings, lists of strings, dicts of strings (chosen by JSON type only)."""
    if isinstance(v, str):
        return True
    if isinstance(v, list):
        return all(isinstance(x, str) for x in v)
    if isinstance(v, dict):
        return all(isinstance(x, str) for x in v.values())
    return False


def strip_model(model: dict) -> dict:
    out = {}
    for k, its in model.items():
        if isinstance(its, dict):
            out[k] = {lab: {a: v for a, v in it.items() if _plain(v)} for lab, it in its.items()}
        else:
            out[k] = [{a: v for a, v in it.items() if _plain(v)} for it in its]
    return out


def bases_json(bases: list[dict]) -> dict:
    return {"bases": [{"name": b["name"], "model": strip_model(b["model"]), "parameters": sorted(b["parameters"])} for b in bases]}


# --------------------------------------------------------------------------- mutant (spec items) -> raw model dictionary
WRONG = "zz_undefined"
_ALIAS: dict = {}          # realised wrong label -> the specification's Wrong, for the case being evaluated (one process evaluates one case at a time)


def _adversarial(v, orig_v, base):
    """The specification's undefined label stands for ANY undefined label.  For a parameter reference it is realised as the group path of the
    parameter it replaces ('kinetic' for 'kinetic.k21'): undefined all the same, but a prefix of labels that do exist."""
    if v == WRONG and isinstance(orig_v, str) and orig_v in base["parameters"] and "." in orig_v:
        pref = orig_v.split(".")[0]
        if pref not in base["parameters"] and all(pref not in reg for reg in base["model"].values() if isinstance(reg, dict)):
            _ALIAS[pref] = WRONG
            return pref
    return v


def build_raw(case: dict, base: dict, base_case: dict) -> dict:
    """Overlay the reference slots of the mutant on the raw base model.  Which attributes are slots is read from the
    specification's own normalisation of the base model (base_case), never decided here."""
    base_slots = {(it["kind"], it["label"]): [s["name"] for s in it["slots"]] for it in base_case["items"]}
    raw: dict = {}
    for kind, its in base["model"].items():
        raw[kind] = {} if isinstance(its, dict) else [None] * len(its)
    for it in case["items"]:
        kind, orig = it["kind"], it["orig"]
        src = base["model"][kind][int(orig) - 1] if kind in LIST_KINDS else base["model"][kind][orig]
        item = copy.deepcopy(src)
        for name in base_slots[(kind, orig)]:
            item.pop(name, None)
        if isinstance(item.get("labels"), list) and it["nlabels"] < len(item["labels"]):
            item["labels"] = item["labels"][: it["nlabels"]]     # DropPlainLabel: the plain label list the specification shortened
        for s in it["slots"]:
            o = src.get(s["name"]) if isinstance(src, dict) else None
            if s["shape"] == "scalar":
                item[s["name"]] = _adversarial(s["vals"][0], o, base)
            elif s["shape"] == "list":
                ol = list(o) if isinstance(o, (list, tuple)) and len(o) == len(s["vals"]) else [None] * len(s["vals"])
                item[s["name"]] = [_adversarial(v, ov, base) for v, ov in zip(s["vals"], ol)]
            else:
                od = o if isinstance(o, dict) else {}
                item[s["name"]] = {k: _adversarial(v, od.get(k), base) for k, v in zip(s["keys"], s["vals"])}
        if kind in LIST_KINDS:
            raw[kind][int(orig) - 1] = item
        else:
            raw[kind][it["label"]] = item
    for kind in LIST_KINDS:
        if kind in raw:
            raw[kind] = [x for x in raw[kind] if x is not None]
    return raw


_TUPLE_KEY = re.compile(r"^\(\s*([^,()]+?)\s*,\s*([^,()]+?)\s*\)$")


def tuple_keys(raw: dict) -> dict:
    """'(to, from)' dictionary keys -> tuples, as the yaml loader does before constructing the model."""
    out = copy.deepcopy(raw)
    for its in out.values():
        for it in (its.values() if isinstance(its, dict) else its):
            for a, v in list(it.items()):
                if isinstance(v, dict) and v and all(isinstance(k, str) and _TUPLE_KEY.match(k) for k in v):
                    it[a] = {tuple(_TUPLE_KEY.match(k).groups()): x for k, x in v.items()}
    return out


_CLASS_CACHE: dict = {}


def model_class(base: dict):
    """The model class of the base model's megacomplex types (public plugin route), also used for its mutants."""
    from glotaran.model import Model
    from glotaran.plugin_system.megacomplex_registration import get_megacomplex
    types = tuple(sorted({m["type"] for m in base["model"]["megacomplex"].values()}))
    if types not in _CLASS_CACHE:
        _CLASS_CACHE[types] = Model.create_class_from_megacomplexes([get_megacomplex(t) for t in types])
    return _CLASS_CACHE[types]


def expand(case: dict, base_case: dict) -> dict:
    """Emitted difference -> full item list of the mutant."""
    if not case["muts"] or "changed" not in case:
        return case
    gone = {tuple(x) for x in case["removed"]} | {(it["kind"], it["orig"]) for it in case["changed"]}
    full = dict(case)
    full["items"] = [it for it in base_case["items"] if (it["kind"], it["orig"]) not in gone] + list(case["changed"])
    return full


def make_parameters(labels, values: dict):
    from glotaran.parameter import Parameter, Parameters
    return Parameters({lab: Parameter(label=lab, value=float(values.get(lab, 1.0))) for lab in sorted(labels)})


def make_data(raw: dict, axes: dict):
    import numpy as np
    import xarray as xr
    rng = np.random.default_rng(12345)
    data = {}
    for lab, d in raw["dataset"].items():
        mcs = [raw["megacomplex"].get(m, {}).get("type") for m in d.get("megacomplex", [])]
        guide = bool(mcs) and all(t == "clp-guide" for t in mcs)
        t = [0.0] if guide else axes["time"]
        s = axes["spectral"]
        data[lab] = xr.DataArray(rng.random((len(t), len(s))) + 1.0, coords=[("time", t), ("spectral", s)]).to_dataset(name="data")
    return data


# --------------------------------------------------------------------------- issue projection
_SHAPES = [
    (re.compile(r"^Missing model item '(.*)' with label '(.*)'\.$"), lambda m: ("model_item", m.group(1), m.group(2))),
    (re.compile(r"^Missing parameter with label '(.*)'\.$"), lambda m: ("parameter", "", m.group(1))),
    (re.compile(r"^Exclusive (?:global )?megacomplex '(.*)' of type '(.*)' cannot be combined with other megacomplexes\.$"),
     lambda m: ("exclusive", m.group(2), m.group(1))),
    (re.compile(r"^Unique (?:global )?megacomplex '(.*)' of type '(.*)' can only be used once per dataset\.$"),
     lambda m: ("unique", m.group(2), m.group(1))),
    (re.compile(r"^The size of labels \(\d+\), frequencies \(\d+\), and rates \(\d+\) does not match for (damped oscillation|pfid) "
                r"megacomplex '(.*)'\.$"),
     lambda m: ("length", {"damped oscillation": "damped-oscillation", "pfid": "pfid"}[m.group(1)], m.group(2))),
]


def project(messages, may: set) -> tuple[set, list]:
    """Documented message shapes -> (class, item name / type, label).  A message of another shape is attributed to the
    expected issues whose label it quotes (wording is not compared); if it quotes none it is returned as unparsed."""
    got, unparsed = set(), []
    for msg in messages:
        if "arameter" in msg:          # only the label quoted by a missing-PARAMETER message ('irf' is also the name of an item kind)
            for real, spec_label in _ALIAS.items():
                msg = msg.replace(f"'{real}'", f"'{spec_label}'")
        for rx, f in _SHAPES:
            m = rx.match(msg.strip())
            if m:
                got.add(f(m))
                break
        else:
            cand = {x for x in may if f"'{x[2]}'" in msg}
            if cand:
                got |= cand
            else:
                unparsed.append(msg)
    return got, unparsed


def _bullets(text: str) -> list[str]:
    return [ln[3:] for ln in str(text).splitlines() if ln.startswith(" * ")]


def _site(ex: BaseException) -> str:
    """Innermost glotaran function in the traceback (stable call-site name)."""
    site = "?"
    for fr in traceback.extract_tb(ex.__traceback__):
        if "/glotaran/" in fr.filename.replace("\\", "/"):
            site = fr.name
    return site


def _is_lookup_error(ex: BaseException, labels: set) -> bool:
    from glotaran.parameter.parameters import ParameterNotFoundException
    if isinstance(ex, ParameterNotFoundException):
        return True
    if isinstance(ex, KeyError) and ex.args and isinstance(ex.args[0], str) and ex.args[0] in labels:
        return True
    return isinstance(ex, AttributeError) and "'str' object has no attribute" in str(ex)


import contextlib


@contextlib.contextmanager
def _quiet_stderr():
    """LAPACK prints 'On entry to DORMQR ...' to the C-level stderr for degenerate (empty) matrices of structurally
    changed mutants; the Python exception that follows is what is classified."""
    import sys
    sys.stderr.flush()
    saved = os.dup(2)
    devnull = os.open(os.devnull, os.O_WRONLY)
    try:
        os.dup2(devnull, 2)
        yield
    finally:
        os.dup2(saved, 2)
        os.close(saved)
        os.close(devnull)


def _guide_use(case: dict, raw: dict) -> set:
    """Which clp-guide megacomplexes each dataset list uses (they dictate the data shape, which is not a reference matter)."""
    orig = {it["label"]: it["orig"] for it in case["items"] if it["kind"] == "megacomplex"}
    res = set()
    for it in case["items"]:
        if it["kind"] == "dataset":
            for s in it["slots"]:
                guides = sorted(orig.get(v, v) for v in s["vals"] if raw["megacomplex"].get(v, {}).get("type") == "clp-guide")
                if s["target"] == "megacomplex" and guides:
                    res.add((it["orig"], s["name"], tuple(guides)))
    return res


# --------------------------------------------------------------------------- one case on the real code
def signature(case: dict, slot_target: dict) -> list[str]:
    sigs = []
    types = {(it["kind"], it["label"]): it["type"] for it in case["items"]}
    for m in case["muts"]:
        if m["op"] == "droplabel":
            sigs.append(f"droplabel {m['kind']}.labels")
        elif m["op"] in ("misspell", "dropref", "append"):
            tgt = slot_target.get((m["kind"], m["slot"]), "?")
            sigs.append(f"{m['op']} {m['kind']}.{m['slot']}->{tgt}")
        elif m["op"] in ("delitem", "rename"):
            sigs.append(f"{m['op']} {m['kind']}")
        else:
            sigs.append(m["op"])
    del types
    return sigs or ["base"]


def eval_case(case: dict, base: dict, base_case: dict, slot_target: dict, evaluate: bool = True, yaml_route: bool = True) -> dict:
    """Returns dict(findings=[(failure, what)], counters) — no Check object so that it can run in a worker process."""
    case = expand(case, base_case)
    from glotaran.io import load_model
    from glotaran.model import ModelError, fill_item
    from glotaran.project import Scheme

    findings: list[tuple[str, str]] = []
    out = {"findings": findings, "evaluations": 0, "skips": {}, "got_p": None, "got_np": None, "evaluated": False}

    def skip(reason):
        out["skips"][reason] = out["skips"].get(reason, 0) + 1

    _ALIAS.clear()
    raw = build_raw(case, base, base_case)
    try:
        model = model_class(base)(**tuple_keys(raw))
    except Exception as ex:  # noqa: BLE001
        raise MachineryError(f"C20 generator: mutant model of {case['base']} {case['muts']} cannot be constructed: {type(ex).__name__}: {ex}")
    params = make_parameters(case["params"], base["parameters"])
    sets = {False: (set(map(tuple, case["must_np"])), set(map(tuple, case["may_np"]))),
            True: (set(map(tuple, case["must_p"])), set(map(tuple, case["may_p"])))}
    labels = {it["label"] for it in case["items"]} | set(case["params"]) | {v for it in case["items"] for s in it["slots"] for v in s["vals"]}
    crashed: set = set()

    def internal(call, ex):
        f = f"internal-error {type(ex).__name__}@{_site(ex)}"
        if f not in crashed:
            crashed.add(f)
            findings.append((f, f"{call} raised {type(ex).__name__}: {ex} instead of reporting issues (expected issues {sorted(sets[True][0])})"))

    def compare(route, mdl, with_p):
        must, may = sets[with_p]
        p = params if with_p else None
        call = f"{route}.get_issues({'parameters' if with_p else 'no parameters'})"
        out["evaluations"] += 1
        try:
            with warnings.catch_warnings():
                warnings.simplefilter("ignore")
                issues = mdl.get_issues(parameters=p)
                msgs = [i.to_string() for i in issues]
        except Exception as ex:  # noqa: BLE001
            internal(call, ex)
            return None
        got, unparsed = project(msgs, may)
        for u in unparsed:
            findings.append(("spurious-issue unparsed", f"{call}: issue with an undocumented message shape that matches no expected issue: {u!r}"))
        for x in sorted(must - got):
            findings.append((f"missing-issue {x[0]}:{x[1]}", f"{call}: no issue for {x} (reported: {sorted(got)}; specification requires {sorted(must)})"))
        for x in sorted(got - may):
            findings.append((f"spurious-issue {x[0]}:{x[1]}", f"{call}: issue {x} although the specification allows only {sorted(may)}"))
        # the other public routes must agree with get_issues
        try:
            with warnings.catch_warnings():
                warnings.simplefilter("ignore")
                text = str(mdl.validate(p) if with_p else mdl.validate())
                ok = mdl.valid(p) if with_p else mdl.valid()
            tgot, _ = project(_bullets(text), may)
            if tgot != got or (("Your model is valid." == text.strip()) != (not msgs)):
                findings.append(("route-disagreement validate", f"{route}.validate text lists {sorted(tgot)}, get_issues {sorted(got)}: {text!r}"))
            if bool(ok) != (not msgs):
                findings.append(("route-disagreement valid", f"{route}.valid() = {ok} with issues {sorted(got)}"))
        except Exception as ex:  # noqa: BLE001
            internal(f"{route}.validate/valid", ex)
        try:
            with warnings.catch_warnings():
                warnings.simplefilter("ignore")
                mdl.validate(p, raise_exception=True)
            if msgs:
                findings.append(("route-disagreement raise_exception", f"{route}.validate(raise_exception=True) did not raise with issues {sorted(got)}"))
        except ModelError as ex:
            rgot, _ = project(_bullets(str(ex)), may)
            if not msgs or rgot != got:
                findings.append(("route-disagreement raise_exception", f"{route}.validate(raise_exception=True) raised ModelError listing {sorted(rgot)}, get_issues {sorted(got)}"))
        except Exception as ex:  # noqa: BLE001
            internal(f"{route}.validate(raise_exception=True)", ex)
        return got

    got_np = compare("Model", model, False)
    got_p = compare("Model", model, True)
    out["got_np"] = sorted(got_np) if got_np is not None else None
    out["got_p"] = sorted(got_p) if got_p is not None else None

    # yaml route (only when the set of megacomplex types, hence the model class, is the one of the base model)
    base_types = {m["type"] for m in base["model"]["megacomplex"].values()}
    if not yaml_route:
        skip("yaml route: not taken for this two-mutation case (taken for all single mutations and a sample of pairs)")
    elif {m["type"] for m in raw.get("megacomplex", {}).values()} == base_types:
        import yaml
        try:
            ymodel = load_model(yaml.safe_dump(raw), format_name="yml_str")
        except Exception as ex:  # noqa: BLE001
            raise MachineryError(f"C20 generator: yaml route failed for {case['base']} {case['muts']}: {type(ex).__name__}: {ex}")
        for w in (False, True):
            g = compare("load_model(yml_str)", ymodel, w)
            ref = got_p if w else got_np
            if g is not None and ref is not None and g != ref:
                findings.append(("route-disagreement yml", f"yaml-loaded model reports {sorted(g)}, dictionary-built model {sorted(ref)}"))
    else:
        skip("yaml route: megacomplex type set differs from the base model's (model class would differ)")

    # Scheme.validate / valid
    data = make_data(raw, base["axes"])
    try:
        with warnings.catch_warnings():
            warnings.simplefilter("ignore")
            scheme = Scheme(model=model, parameters=params, data=data, maximum_number_function_evaluations=1)
            stext = str(scheme.validate())
            sok = scheme.valid()
        out["evaluations"] += 1
        sgot, _ = project(_bullets(stext), sets[True][1])
        if got_p is not None and (sgot != got_p or bool(sok) != (not got_p)):
            findings.append(("route-disagreement scheme", f"Scheme.validate lists {sorted(sgot)} / valid()={sok}, Model.get_issues(parameters) {sorted(got_p)}"))
    except Exception as ex:  # noqa: BLE001
        scheme = None
        internal("Scheme.validate", ex)

    # generated parameters leave no missing-parameter issue
    try:
        with warnings.catch_warnings():
            warnings.simplefilter("ignore")
            gen = model.generate_parameters()
            glabels = {_ALIAS.get(p.label, p.label) for p in gen.all()}
        out["evaluations"] += 1
        miss = set(case["gen"]) - glabels
        if miss:
            findings.append(("generated-parameters-missing", f"generate_parameters() lacks {sorted(miss)} which the model references"))
        try:
            with warnings.catch_warnings():
                warnings.simplefilter("ignore")
                gmsgs = [i.to_string() for i in model.get_issues(parameters=gen)]
            ggot, _ = project(gmsgs, sets[False][1] | {("parameter", "", q) for q in labels})
            pi = sorted(x for x in ggot if x[0] == "parameter")
            if pi:
                findings.append(("generated-parameters-missing", f"validation with the generated parameters still reports {pi}"))
            if got_np is not None and {x for x in ggot if x[0] != "parameter"} != got_np:
                findings.append(("route-disagreement generated", f"issues with generated parameters {sorted(ggot)} differ from issues without parameters {sorted(got_np)}"))
        except Exception as ex:  # noqa: BLE001
            internal("get_issues(generated parameters)", ex)
    except Exception as ex:  # noqa: BLE001
        internal("generate_parameters", ex)

    # what validates can be filled and evaluated without lookup errors
    if evaluate and not sets[True][0] and got_p is not None and not got_p and scheme is not None:
        out["evaluated"] = True
        for lab in model.dataset:
            out["evaluations"] += 1
            try:
                with warnings.catch_warnings():
                    warnings.simplefilter("ignore")
                    filled = fill_item(model.dataset[lab], model, params)
                # every reference resolves in the registry of ITS kind (labels are unique per kind only)
                ditem = next((it for it in case["items"] if it["kind"] == "dataset" and it["label"] == lab), None)
                for sl in (ditem["slots"] if ditem else []):
                    reg = getattr(model, sl["target"], None)
                    if not isinstance(reg, dict):
                        continue
                    attr = getattr(filled, sl["name"], None)
                    vals = list(attr.values()) if isinstance(attr, dict) else (list(attr) if isinstance(attr, (list, tuple)) else [attr])
                    for ref, v in zip(sl["vals"], vals):
                        if isinstance(v, (str, type(None))) or ref not in reg:
                            continue
                        if type(v) is not type(reg[ref]) or getattr(v, "label", ref) != ref:
                            findings.append((f"wrong-item-after-valid fill_item dataset.{sl['name']}",
                                             f"fill_item(dataset {lab!r}): reference {sl['name']}={ref!r} (a {sl['target']}) was filled with a "
                                             f"{type(v).__name__} labelled {getattr(v, 'label', '?')!r} instead of the {type(reg[ref]).__name__} of that label"))
            except Exception as ex:  # noqa: BLE001
                if _is_lookup_error(ex, labels):
                    findings.append((f"lookup-error-after-valid fill_item {type(ex).__name__}@{_site(ex)}",
                                     f"fill_item(dataset {lab!r}) raised {type(ex).__name__}: {ex} on a model/parameter pair that validates"))
                else:
                    skip(f"fill_item not possible for a non-reference reason ({type(ex).__name__})")
        if any(not d.get("megacomplex") for d in raw["dataset"].values()) or not raw["dataset"]:
            skip("objective not evaluated: a dataset without megacomplex has nothing to evaluate")
            return out
        if _guide_use(case, raw) != _guide_use(base_case, base["model"]):
            skip("objective not evaluated: the use of clp-guide megacomplexes changed and the data does not have the shape the guide needs")
            return out
        out["evaluations"] += 1
        try:
            from glotaran.optimization.optimizer import Optimizer
            import numpy as np
            with warnings.catch_warnings(), _quiet_stderr():
                warnings.simplefilter("ignore")
                opt = Optimizer(scheme, verbose=False, raise_exception=True)
                flabels, x0, _, _ = params.get_label_value_and_bounds_arrays(exclude_non_vary=True)
                opt._free_parameter_labels = flabels
                opt.objective_function(np.asarray(x0))
        except Exception as ex:  # noqa: BLE001
            if _is_lookup_error(ex, labels):
                findings.append((f"lookup-error-after-valid objective {type(ex).__name__}@{_site(ex)}",
                                 f"objective evaluation raised {type(ex).__name__}: {ex} on a model/parameter pair that validates"))
            else:
                detail = f": {ex}" if isinstance(ex, AttributeError) else ""
                skip(f"objective not evaluable for a non-reference reason ({type(ex).__name__}@{_site(ex)}{detail})")
    return out


# --------------------------------------------------------------------------- schema cross-check (warning only)
def schema_crosscheck(table: list[dict]) -> list[str]:
    """Compare the hand-written schema with introspection of the item classes; differences are notes, never verdicts."""
    from glotaran.builtin.megacomplexes.decay.decay_megacomplex import DecayDatasetModel
    from glotaran.builtin.megacomplexes.decay.initial_concentration import InitialConcentration
    from glotaran.builtin.megacomplexes.decay.irf import Irf
    from glotaran.builtin.megacomplexes.decay.k_matrix import KMatrix
    from glotaran.builtin.megacomplexes.pfid.pfid_megacomplex import PFIDDatasetModel
    from glotaran.builtin.megacomplexes.spectral.shape import SpectralShape
    from glotaran.builtin.megacomplexes.spectral.spectral_megacomplex import SpectralDatasetModel
    from glotaran.model.clp_constraint import ClpConstraint
    from glotaran.model.clp_penalties import ClpPenalty
    from glotaran.model.clp_relation import ClpRelation
    from glotaran.model.dataset_group import DatasetGroupModel
    from glotaran.model.weight import Weight
    from glotaran.model.item import META_ALIAS, model_attributes, parameter_attributes, strip_type_and_structure_from_attribute
    from glotaran.plugin_system.megacomplex_registration import get_megacomplex

    def introspect(classes):
        res = set()
        for cls in classes:
            for attr in model_attributes(cls):
                st, _ = strip_type_and_structure_from_attribute(attr)
                res.add((attr.name, {None: "scalar", list: "list", dict: "dict"}[st], attr.metadata.get(META_ALIAS, attr.name)))
            for attr in parameter_attributes(cls):
                st, _ = strip_type_and_structure_from_attribute(attr)
                res.add((attr.name, {None: "scalar", list: "list", dict: "dict"}[st], "parameter"))
        return res

    notes = []
    for row in table:
        kind, typ = row["kind"], row["type"]
        try:
            classes = {"dataset": [DecayDatasetModel, SpectralDatasetModel, PFIDDatasetModel], "k_matrix": [KMatrix],
                       "initial_concentration": [InitialConcentration], "clp_relations": [ClpRelation], "weights": [Weight],
                       "dataset_groups": [DatasetGroupModel]}.get(kind)
            if classes is None:
                classes = [{"megacomplex": get_megacomplex, "irf": Irf.get_item_type_class, "shape": SpectralShape.get_item_type_class,
                            "clp_penalties": ClpPenalty.get_item_type_class, "clp_constraints": ClpConstraint.get_item_type_class}[kind](typ)]
            code = introspect(classes)
        except Exception as ex:  # noqa: BLE001
            notes.append(f"{kind}/{typ}: introspection failed ({type(ex).__name__}: {ex})")
            continue
        spec = {(s["name"], s["shape"], s["target"]) for s in row["slots"]}
        for x in sorted(spec - code):
            notes.append(f"{kind}/{typ or '-'}: schema has reference {x[0]} ({x[1]} -> {x[2]}) which type-driven discovery in the code does not see")
        for x in sorted(code - spec):
            notes.append(f"{kind}/{typ or '-'}: code discovers reference {x[0]} ({x[1]} -> {x[2]}) which the hand-written schema lacks")
    return notes


# --------------------------------------------------------------------------- driver
def _case_key(c: dict) -> str:
    return json.dumps([c["base"], c.get("changed"), c.get("removed"), c["params"]], sort_keys=True)


def _worker(args):
    cases, bases, base_cases, slot_target = args
    return [eval_case(c, bases[c["base"]], base_cases[c["base"]], slot_target, yaml_route=c["_yaml"]) for c in cases]


def _slot_targets(table: list[dict]) -> dict:
    return {(row["kind"], s["name"]): s["target"] for row in table for s in row["slots"]}


def emit_cases(bases: list[dict], maxmut: int, td: Path, parallel: int = 5):
    """One emission run of ValidationEmit per base model (single worker each, a few JVMs side by side)."""
    from concurrent.futures import ThreadPoolExecutor

    def one(b):
        bf = td / f"base_{b['name']}.json"
        bf.write_text(json.dumps(bases_json([b])))
        em = run_tlc("ValidationEmit", cfg(maxmut, emit=True), workers=1, timeout=1500, coverage=False, env={"C20_BASES": str(bf)}, heap="3g")
        cs = printed_json(em["stdout"], "CASE")
        tb = printed_json(em["stdout"], "SCHEMA")
        if len(cs) + 1 != em["generated"] or not tb:
            raise MachineryError(f"case emission incomplete for {b['name']}: {len(cs)} cases parsed, TLC generated {em['generated']} states")
        return cs, tb[0], em["generated"]

    with ThreadPoolExecutor(max_workers=parallel) as ex:
        parts = list(ex.map(one, bases))
    cases = [c for cs, _, _ in parts for c in cs]
    return cases, parts[0][1], sum(g for _, _, g in parts)


_REAL: dict = {}


def _report(chk: Check, case: dict, base_case: dict, res: dict, slot_target: dict, single_fail: set):
    sigs = signature(case, slot_target)
    for failure, what in res["findings"]:
        sig = " + ".join(sigs)
        if not case["muts"]:
            single_fail.add((failure, "base:" + case["base"]))
        elif (failure, "base:" + case["base"]) in single_fail:
            sig = "base"                 # the unmutated base model already shows this failure
        elif len(sigs) > 1:
            for s in sigs:       # attribute a failure of a pair to the single mutation that already shows it
                if (failure, s) in single_fail:
                    sig = s
                    break
        else:
            single_fail.add((failure, sig))
        key = f"{failure} | {sig}"
        counts = chk.extra.setdefault("violation_instances_by_key", {})
        counts[key] = counts.get(key, 0) + 1
        text = f"base model {case['base']}, mutations {json.dumps(case['muts'])}: {what}"
        if counts[key] == 1:     # first instance of a key carries the replay; core keeps only the first 50 records with replay
            full = {k: v for k, v in expand(case, base_case).items() if not k.startswith("_")}
            _REAL[key] = chk.violation(key, text, {"engine": "c20-case", "case": full})
        elif not _REAL.get(key, True):
            chk.violation(key, text, None)       # known finding: count the hit


def run(tier: str, replay=None) -> int:
    import random
    chk = Check("C20", tier)
    rng = random.Random(seed())
    chk.rule = ("every mutant TLC reaches from a base model (spec/Validation.tla) is built as a real Model (+ Parameters) and validated "
                "through get_issues / validate / valid / raise_exception / Scheme / yaml route / generated parameters; valid pairs are "
                "filled and evaluated once; non-trivial = mutants (base models are the trivial cases); distinct = distinct (base, items, parameters)")
    chk.assumptions = [
        "trusted base: the hand-written reference schema in spec/Validation.tla (cross-checked against introspection as notes only)",
        "issues are compared as sets projected to (class, item name / type, label); wording (e.g. the word 'global') and multiplicity are not compared",
        "exclusive megacomplex next to an undefined label in the same list: reporting it or not are both accepted (must/may sets)",
        "dataset.group -> dataset_groups and weights.datasets -> dataset are labels that are referenced and must be defined (schema decision)",
        "lookup error = ParameterNotFoundException, KeyError whose key is a label of the case, or use of an unfilled 'str' reference; other "
        "evaluation failures of structurally changed valid mutants (shape mismatch, missing irf ...) are not judged",
        "model construction from the dictionary is outside the property (a construction failure of a generated mutant is a machinery error)",
        "trusted: TLC, CommunityModules Json/IOUtils, PyYAML dump for the yaml route",
    ]
    if replay:
        return _replay_one(chk, replay)

    bases = base_models(tier)
    by_name = {b["name"]: b for b in bases}
    # quick: every single mutation of every base model + every pair of mutations of the base model with exclusive / unique
    # megacomplexes (the only place where must and may sets differ); thorough: every pair of mutations of every base model
    plans = [(bases, 1), ([by_name["guide"]], 2)] if tier == "quick" else [(bases, 2)]
    cases, table = [], None
    with tempfile.TemporaryDirectory(prefix="verif_c20_") as td:
        for i, (bs, maxmut) in enumerate(plans):
            bf = Path(td) / f"bases_{i}.json"
            bf.write_text(json.dumps(bases_json(bs)))
            res = run_tlc("Validation", cfg(maxmut), workers=8 if tier == "quick" else 16, timeout=1500, env={"C20_BASES": str(bf)}, heap="6g")
            require_actions(res, ACTIONS if len(bs) > 1 else ["PickBase", "Misspell", "DropReference", "DeleteItem", "DeleteParam", "Rename",
                                                              "RenameParameter", "AppendMegacomplex"])
            chk.add_tlc(res, f"Validation[MaxMut={maxmut}, base models: {', '.join(b['name'] for b in bs)}]")
            cs, table, ngen = emit_cases(bs, maxmut, Path(td))
            if ngen - len(bs) + 1 != res["generated"]:
                raise MachineryError(f"emission runs generated {ngen} states for {len(bs)} bases, the checking run {res['generated']}")
            cases += cs
    slot_target = _slot_targets(table)
    notes = schema_crosscheck(table)
    for n in notes:
        print("SCHEMA-NOTE:", n)
    chk.extra["schema_crosscheck_notes"] = notes

    base_cases = {c["base"]: c for c in cases if not c["muts"]}
    if set(base_cases) != set(by_name):
        raise MachineryError("base cases missing in emission")
    # dedupe by content (the two orders of a pair give the same model); singles first
    seen, uniq = set(), []
    for c in sorted(cases, key=lambda c: len(c["muts"])):
        k = _case_key(c)
        if k not in seen:
            seen.add(k)
            uniq.append(c)
    chk.extra["cases_emitted"] = len(cases)
    chk.extra["cases_distinct"] = len(uniq)
    del cases
    for c in uniq:      # the yaml route is slow (pure python parser): all singles, one pair in eight
        c["_yaml"] = len(c["muts"]) <= 1 or rng.random() < 0.125

    nproc = 1 if len(uniq) < 3000 else min(10, max(1, (os.cpu_count() or 4) - 2))
    if nproc > 1:
        os.environ["NUMBA_NUM_THREADS"] = "1"      # inherited by the spawned workers: one thread per worker process
    if nproc == 1:
        results = [eval_case(c, by_name[c["base"]], base_cases[c["base"]], slot_target, yaml_route=c["_yaml"]) for c in uniq]
    else:
        import multiprocessing as mp
        chunks = [uniq[i:i + 250] for i in range(0, len(uniq), 250)]
        with mp.get_context("spawn").Pool(nproc) as pool:
            parts = pool.map(_worker, [(ch, by_name, base_cases, slot_target) for ch in chunks], chunksize=1)
        results = [r for part in parts for r in part]

    single_fail: set = set()
    per_op: dict = {}
    n_eval = 0
    for c, r in zip(uniq, results):
        chk.evaluations += r["evaluations"]
        chk.traces += 1
        for reason, n in r["skips"].items():
            chk.skip(reason, n)
        if c["muts"]:
            chk.nontriv(_case_key(c))
        n_eval += bool(r["evaluated"])
        op = "+".join(m["op"] for m in c["muts"]) or "base"
        per_op[op] = per_op.get(op, 0) + 1
        _report(chk, c, base_cases[c["base"]], r, slot_target, single_fail)
    chk.extra["cases_by_mutation"] = per_op
    chk.extra["valid_pairs_filled_and_evaluated"] = n_eval
    pool_ = [(c, r) for c, r in zip(uniq, results) if c["muts"]]
    rng.shuffle(pool_)
    for op in ["misspell", "delitem", "delparam", "append", "dropref", "rename"]:
        for c, r in pool_:
            if c["muts"][-1]["op"] == op and r["got_p"] is not None:
                chk.sample({"base": c["base"], "mutations": c["muts"], "expected_must_with_parameters": c["must_p"],
                            "expected_must_without_parameters": c["must_np"], "reported_with_parameters": r["got_p"],
                            "reported_without_parameters": r["got_np"], "filled_and_evaluated": r["evaluated"]})
                break
    return chk.finish()


def _replay_one(chk: Check, rp: dict) -> int:
    case = rp["replay"]["case"]
    bases = {b["name"]: b for b in base_models("thorough")}
    base = bases[case["base"]]
    # the specification's normalisation of the base model says which attributes are slots: re-emit the base case
    with tempfile.TemporaryDirectory(prefix="verif_c20_") as td:
        cases, table, _ = emit_cases([base], 0, Path(td))
    base_case = [c for c in cases if not c["muts"]][0]
    slot_target = _slot_targets(table)
    r = eval_case(case, base, base_case, slot_target)
    chk.evaluations += r["evaluations"]
    chk.traces += 1
    chk.nontriv(json.dumps([case["base"], case["muts"]], sort_keys=True))
    chk.sample({"base": case["base"], "mutations": case["muts"], "expected_must_with_parameters": case["must_p"],
                "reported_with_parameters": r["got_p"], "reported_without_parameters": r["got_np"]})
    _report(chk, case, base_case, r, slot_target, set())
    return chk.finish()
