"""spec -> code for ProjectRuns.tla: the TLC state graph is replayed on a real glotaran.project.Project.

Every state of the graph is reached on a real project folder (forked by copying the tree at branching points),
every transition is executed once by the real operation, and in every state every pure lookup is asked and compared
with the table of allowed answers the specification emitted for that state.

level "registry": Optimize = ProjectResultRegistry(folder).save(name, <a real one-evaluation Result>)
level "project" : Optimize = Project.optimize(model, parameters, result_name=name, maximum_number_function_evaluations=1)
"""
from __future__ import annotations

import contextlib
import io
import json
import os
import shutil
import tempfile
import warnings
from pathlib import Path

from .c18_fixtures import MODEL_YML, dataset, file_digest, folder_digest, objects, snapshot
from .core import Check, MachineryError
from .tlc import printed_json, require_actions, run_tlc

NAMES = ["a", "ab", "a_run_b", "a_run", "b_run_0000"]
AMBIG = ["b_run_0000"]          # reads as "run 0000 of b" as well; "b" is not a result name of the model
KINDS = ["data", "model", "parameters_csv", "parameters_yml"]
INVARIANTS = ["TypeOK", "RunKeyUnique", "FoldersDistinct", "LatestIsOwnMax"]
PROPERTIES = ["FreshIncreasing", "EarlierRunsUnchanged", "RemoveOnlyRemoves", "LookupsArePure", "ItemChangesOnlyIfAsked", "ItemRefusal",
              "ItemsAndRunsIndependent"]
ITEM_PATH = {"data": "data/item.nc", "model": "models/item.yml", "parameters_csv": "parameters/item_csv.csv", "parameters_yml": "parameters/item_yml.yml"}
ITEM_API = {"data": "import_data", "model": "generate_model", "parameters_csv": "generate_parameters[csv]", "parameters_yml": "generate_parameters[yml]"}


def _s(xs):
    return "{" + ", ".join(json.dumps(x) for x in xs) + "}"


def cfg(names, kinds, max_runs, max_writes, max_removes, lookups, emit=False, max_fails=0):
    lines = ["SPECIFICATION Spec", "CONSTANTS", f"  Names = {_s(names)}", f"  AmbigNames = {_s([n for n in names if n in AMBIG])}",
             f"  Kinds = {_s(kinds)}", f"  MaxRuns = {max_runs}", f"  MaxWrites = {max_writes}", f"  MaxRemoves = {max_removes}", f"  MaxFails = {max_fails}",
             f"  Lookups = {'TRUE' if lookups else 'FALSE'}", "CHECK_DEADLOCK FALSE"]
    if emit:
        lines += ["CONSTRAINT EmitState", "ACTION_CONSTRAINT EmitEdge"]
    else:
        lines += [f"INVARIANT {i}" for i in INVARIANTS] + [f"PROPERTY {p}" for p in PROPERTIES]
    return "\n".join(lines) + "\n"


def core_key(core) -> str:
    if not isinstance(core["files"], dict):   # the empty function is serialised as []
        core["files"] = {}
    made = core.get("made", {})
    return json.dumps({"runs": sorted([r["name"], r["n"], r["tok"]] for r in core["runs"]), "files": dict(sorted(core["files"].items())),
                       "made": made if isinstance(made, dict) else {}, "nrem": core.get("nrem", 0)}, sort_keys=True)


def load_graph(chk: Check, names, kinds, max_runs, max_writes, max_removes, label, max_fails=0):
    res = run_tlc("ProjectRuns", cfg(names, kinds, max_runs, max_writes, max_removes, True, max_fails=max_fails), workers=16, timeout=1500)
    need = (["Optimize", "Latest"] if names and max_runs else []) + (["OptimizeFails"] if max_fails else []) + (["Remove"] if names and max_removes else []) + (["ItemOp"] if kinds and max_writes else [])
    require_actions(res, need)
    chk.add_tlc(res, f"ProjectRuns[{label}]")
    em = run_tlc("ProjectRunsEmit", cfg(names, kinds, max_runs, max_writes, max_removes, False, emit=True, max_fails=max_fails), workers=1, timeout=1500, coverage=False)
    raw_states = printed_json(em["stdout"], "STATE")
    raw_edges = printed_json(em["stdout"], "EDGE")
    if len(raw_edges) + 1 != em["generated"] or len(raw_states) < em["distinct"]:
        raise MachineryError(f"ProjectRunsEmit[{label}]: {len(raw_states)} states / {len(raw_edges)} edges parsed, TLC reports {em['distinct']} / {em['generated']}")
    states = {}
    for s in raw_states:
        states.setdefault(core_key(s["core"]), {"core": s["core"], "latest": s["latest"] if isinstance(s["latest"], dict) else {}, "folders": {f["folder"]: [f["name"], f["n"]] for f in s["folders"]},
                                                     "partial": {f["folder"] for f in s["folders"] if f.get("partial")}})
    edges, seen = [], set()
    for e in raw_edges:
        k = (core_key(e["src"]), json.dumps(e["act"], sort_keys=True), core_key(e["dst"]))
        if k not in seen:
            seen.add(k)
            edges.append({"src": k[0], "dst": k[2], "act": e["act"], "folder": e["folder"]})
    return states, edges


# --------------------------------------------------------------------------------- the real project
class Real:
    """A real project folder plus the fingerprints taken when each run / item was written."""

    def __init__(self, base: Path, path: Path | None = None):
        self.base = base
        self.dir = path or Path(tempfile.mkdtemp(prefix="st_", dir=base))
        self.proj = self.dir / "proj"
        self.run_fp: dict = {}
        self.nsaved = 0

    @classmethod
    def create(cls, base: Path, n_models: int) -> "Real":
        from glotaran.io import save_dataset, save_parameters
        from glotaran.project import Project
        from glotaran.project.generators.generator import generate_model_yml
        self = cls(base)
        with warnings.catch_warnings():
            warnings.simplefilter("ignore")
            Project.open(self.proj)
            (self.proj / "models" / "m.yml").write_text(MODEL_YML)
            save_parameters(objects()["parameters"], self.proj / "parameters" / "p.csv", update_source_path=False)
            save_dataset(dataset(), self.proj / "data" / "d1.nc", update_source_path=False)
            for v in range(1, n_models + 1):   # sources of distinct content for generate_parameters
                (self.proj / "models" / f"gm{v}.yml").write_text(generate_model_yml(generator_name="decay_parallel", generator_arguments={"nr_compartments": v, "irf": False}))
        return self

    def fork(self) -> "Real":
        new = Real(self.base)
        os.rmdir(new.dir)
        shutil.copytree(self.dir, new.dir)
        new.run_fp = dict(self.run_fp)
        new.nsaved = self.nsaved
        return new

    def dispose(self):
        shutil.rmtree(self.dir, ignore_errors=True)

    @property
    def results(self) -> Path:
        return self.proj / "results"

    def listing(self) -> set:
        return set(os.listdir(self.results))


def _exc_name(ex) -> str:
    return "ValueError" if type(ex) is ValueError else type(ex).__name__


class Replayer:
    def __init__(self, chk: Check, level: str, states: dict, names, tag: str, load_every: int = 1):
        self.chk = chk
        self.level = level
        self.states = states
        self.names = names
        self.tag = tag
        self.load_every = load_every
        self.mismatches: list = []
        self.n_states = 0
        self.n_edges = 0
        self.n_lookups = 0
        self.n_loads = 0
        self.repaired = 0

    # ------------------------------------------------------------------ helpers
    def _runs_of(self, key) -> dict:
        d: dict = {}
        for name, n in self.states[key]["folders"].values():
            d.setdefault(name, []).append(n)
        return {k: sorted(v) for k, v in sorted(d.items())}

    def mismatch(self, call, got, want, key, detail, replay):
        runs = self._runs_of(key)
        files = {k: v for k, v in self.states[key]["core"]["files"].items() if v}
        self.mismatches.append({"call": call, "got": got, "want": want, "runs": runs, "files": files, "detail": detail, "replay": replay,
                                "size": sum(len(v) for v in runs.values())})

    def project(self, real: Real):
        from glotaran.project import Project
        return Project.open(real.proj, create_if_not_exist=False)

    # ------------------------------------------------------------------ operations
    def do_optimize(self, real: Real, name: str):
        real.nsaved += 1
        with warnings.catch_warnings(), contextlib.redirect_stdout(io.StringIO()):
            warnings.simplefilter("ignore")
            if self.level == "registry":
                from glotaran.project.project_result_registry import ProjectResultRegistry
                ProjectResultRegistry(real.proj).save(name, objects()["result"])
            else:
                self.project(real).optimize("m", "p", result_name=name, maximum_number_function_evaluations=1)

    def check_earlier(self, real: Real, pre: set, key, act, replay):
        for f in sorted(pre):
            if f in real.run_fp and (real.results / f).is_dir() and folder_digest(real.results / f) != real.run_fp[f]:
                self.mismatch(f"{act['op']}({act['name']!r})", "an earlier run folder changed", "earlier runs unchanged", key,
                              f"EarlierRunsUnchanged: content of {f} differs from what was written when it was created", replay)

    def exec_optimize(self, real: Real, src, alts):
        e = alts[0]
        name, folder = e["act"]["name"], e["folder"]
        pre = real.listing()
        replay = {"engine": "c18-runs", "level": self.level, "state": sorted(self.states[src]["folders"].items()), "op": "optimize", "name": name, "folder": folder}
        ex = None
        try:
            self.do_optimize(real, name)
        except Exception as x:  # noqa: BLE001
            ex = x
        post = real.listing()
        new = post - pre
        self.check_earlier(real, pre, src, e["act"], replay)
        if ex is None and new == {folder} and pre <= post and (real.results / folder / "result.yml").is_file():
            real.run_fp[folder] = folder_digest(real.results / folder)
            return e["dst"]
        own = sorted(n for nm, n in self.states[src]["folders"].values() if nm == name)
        want = "new folder <name>_run_<largest own run number + 1, or 0000>"
        if ex is not None:
            got = f"{_exc_name(ex)}" + ("" if post == pre else f", results folder changed: +{sorted(new)} -{sorted(pre - post)}")
        else:
            got = f"created {'nothing' if not new else 'a folder that is not the next run of that name'}" + ("" if pre <= post else ", removed earlier runs")
        shown = f"ProjectResultRegistry.save({name!r}, result)" if self.level == "registry" else f"Project.optimize(result_name={name!r})"
        self.mismatch(shown, got, want, src,
                      f"FreshIncreasing: own runs {own}, expected new folder {folder!r}; observed exception={ex!r:.300}, new={sorted(new)}, removed={sorted(pre - post)}", replay)
        if post == pre:
            # the failed call left the tree alone: put the state a correct implementation would have produced, keep exploring
            from glotaran.io import save_result
            with warnings.catch_warnings():
                warnings.simplefilter("ignore")
                save_result(objects()["result"], real.results / folder / "result.yml")
            real.run_fp[folder] = folder_digest(real.results / folder)
            self.repaired += 1
            return e["dst"]
        return None

    def exec_optimize_fails(self, real: Real, src, alts):
        """A save that fails midway: one dataset of the result cannot be written as netCDF (an attribute that is no netCDF value), so the
        run folder is created and partly filled but gets no result.yml.  Its number is taken; nothing that existed before may change."""
        import copy
        from glotaran.project.project_result_registry import ProjectResultRegistry
        e = alts[0]
        name, folder = e["act"]["name"], e["folder"]
        pre = real.listing()
        replay = {"engine": "c18-runs", "level": self.level, "state": sorted(self.states[src]["folders"].items()), "op": "optimize_fails", "name": name, "folder": folder}
        result = copy.copy(objects()["result"])
        data = dict(result.data)
        bad = data[sorted(data)[-1]].copy()
        bad.attrs["not_a_netcdf_value"] = object()
        data["zz_unwritable"] = bad
        result.data = data
        ex = None
        try:
            with warnings.catch_warnings(), contextlib.redirect_stdout(io.StringIO()):
                warnings.simplefilter("ignore")
                ProjectResultRegistry(real.proj).save(name, result)
        except Exception as x:  # noqa: BLE001
            ex = x
        post = real.listing()
        new = post - pre
        self.check_earlier(real, pre, src, e["act"], replay)
        if ex is None:
            raise MachineryError("the unwritable dataset did not make the save fail")
        if new == {folder} and pre <= post and not (real.results / folder / "result.yml").exists():
            real.run_fp[folder] = folder_digest(real.results / folder)       # the leftover files must stay as they are from now on
            return e["dst"]
        own = sorted(n for nm, n in self.states[src]["folders"].values() if nm == name)
        self.mismatch(f"ProjectResultRegistry.save({name!r}, result) failing midway", f"{_exc_name(ex)}, results folder changed: +{sorted(new)} -{sorted(pre - post)}",
                      "a partial folder <name>_run_<largest own run number + 1, or 0000> and nothing else", src,
                      f"FreshIncreasing (partial runs take their number): own runs {own}, expected partial folder {folder!r}; new={sorted(new)}, removed={sorted(pre - post)}", replay)
        return None

    def exec_remove(self, real: Real, src, alts):
        e = alts[0]
        shutil.rmtree(real.results / e["folder"])
        real.run_fp.pop(e["folder"], None)
        return e["dst"]

    def exec_item(self, real: Real, src, alts):
        act = alts[0]["act"]
        kind, ign, allow = act["name"], act["ignore"], act["allow"]
        path = real.proj / ITEM_PATH[kind]
        version = self.states[src]["core"]["files"][kind] + 1
        pre = file_digest(path)
        pre_other = {k: v for k, v in snapshot(real.proj).items() if k != ITEM_PATH[kind]}
        ex = None
        proj = self.project(real)
        with warnings.catch_warnings():
            warnings.simplefilter("ignore")
            try:
                if kind == "data" and self.n_edges % 2:
                    # the mapping form of import_data (label -> dataset) obeys the same flags
                    proj.import_data({"item": dataset(float(version))}, allow_overwrite=allow, ignore_existing=ign)
                elif kind == "data":
                    proj.import_data(dataset(float(version)), dataset_name="item", allow_overwrite=allow, ignore_existing=ign)
                elif kind == "model":
                    proj.generate_model("item", "decay_parallel", {"nr_compartments": version, "irf": False}, allow_overwrite=allow, ignore_existing=ign)
                else:
                    fmt = kind.split("_")[1]
                    proj.generate_parameters(f"gm{version}", f"item_{fmt}", format_name=fmt, allow_overwrite=allow, ignore_existing=ign)
            except Exception as x:  # noqa: BLE001
                ex = x
        post = file_digest(path)
        post_other = {k: v for k, v in snapshot(real.proj).items() if k != ITEM_PATH[kind]}
        if ex is None:
            outcome = "item_written" if (post is not None and post != pre) else "item_skipped"
        elif isinstance(ex, FileExistsError):
            outcome = "item_refused" if post == pre else "raised FileExistsError after changing the file"
        else:
            outcome = f"raised {_exc_name(ex)}" + ("" if post == pre else " after changing the file")
        call = f"{ITEM_API[kind]}(exists={pre is not None}, ignore_existing={ign}, allow_overwrite={allow})"
        replay = {"engine": "c18-items", "files": self.states[src]["core"]["files"], "kind": kind, "ignore": ign, "allow": allow, "allowed": sorted(a["act"]["op"] for a in alts)}
        if post_other != pre_other:
            diff = sorted(k for k in set(pre_other) | set(post_other) if pre_other.get(k) != post_other.get(k))
            self.mismatch(call, "other files of the project changed", "only the item is written", src, f"changed: {diff[:5]}", replay)
        for a in alts:
            if a["act"]["op"] == outcome:
                return a["dst"]
        want = " or ".join(sorted(a["act"]["op"] for a in alts))
        why = "the existing file was changed without allow_overwrite" if (pre is not None and post != pre and not allow) else "outcome not allowed by ProjectRuns.ItemOp"
        self.mismatch(call, outcome, want, src, f"{why}; exception={ex!r:.200}", replay)
        return None

    def execute(self, real: Real, src, alts):
        self.n_edges += len(alts)
        self.chk.evaluations += 1
        op = alts[0]["act"]["op"]
        if op == "optimize":
            return self.exec_optimize(real, src, alts)
        if op == "optimize_fails":
            return self.exec_optimize_fails(real, src, alts)
        if op == "remove":
            return self.exec_remove(real, src, alts)
        return self.exec_item(real, src, alts)

    # ------------------------------------------------------------------ lookups in a state
    def _ask(self, fn):
        with warnings.catch_warnings():
            warnings.simplefilter("ignore")
            try:
                return ("ok", fn())
            except Exception as ex:  # noqa: BLE001
                return ("exc", ex)

    def _sym(self, real, st, name, got):
        """Symbolic description of an answer (stable across run numbers)."""
        kind, val = got
        if kind == "exc":
            return _exc_name(val), False
        p = Path(val)
        if p == real.results:
            return "the results directory itself", False
        if p.parent == real.results and p.name in st["folders"]:
            rn, rk = st["folders"][p.name]
            if rn != name:
                return f"a run of {rn!r}", False
            own = [n for nm, n in st["folders"].values() if nm == name]
            return ("the latest run of that name", True) if rk == max(own) else ("an older run of that name", False)
        return f"a path that is no run folder ({p.name!r})", False

    def check_state(self, real: Real, key):
        st = self.states[key]
        self.n_states += 1
        proj = self.project(real)
        by_run = {(nm, n): f for f, (nm, n) in st["folders"].items()}
        state_list = sorted(st["folders"].items())

        def compare(call, api, arg, name, got, want_folders, want_err, exact=False):
            self.n_lookups += 1
            self.chk.evaluations += 1
            kind, val = got
            if kind == "exc":
                ok = want_err and type(val) is ValueError
            else:
                p = Path(val if not hasattr(val, "source_path") else Path(val.source_path).parent)
                got = ("ok", p)
                ok = p.parent == real.results and p.name in want_folders
            if ok:
                return True
            gsym, _ = self._sym(real, st, name, got)
            wants = (["exactly that run"] if exact else (["the latest run of that name"] if want_folders else [])) + (["ValueError (no such result)"] if want_err else [])
            self.mismatch(call, gsym, " or ".join(wants), key,
                          f"{api}({arg!r}) answered {got[1]!r:.200}; allowed: {sorted(want_folders)}{' or ValueError' if want_err else ''}",
                          {"engine": "c18-runs", "level": self.level, "state": state_list, "op": "lookup", "api": api, "arg": arg, "name": name,
                           "want_folders": sorted(want_folders), "want_err": want_err, "exact": exact})
            return False

        got_keys = self._ask(lambda: sorted(proj.results.keys()))
        self.n_lookups += 1
        if got_keys != ("ok", sorted(st["folders"])):
            self.mismatch("Project.results", "a different set of results", "one entry per run folder", key, f"got {got_keys[1]!r:.300}, runs {sorted(st['folders'])}",
                          {"engine": "c18-runs", "level": self.level, "state": state_list, "op": "results"})
        do_load = self.load_every and (self.n_states % self.load_every == 0)
        for name in self.names:
            allowed = st["latest"][name]
            want_folders = {by_run[(a["ret"]["name"], a["ret"]["n"])] for a in allowed if a["err"] == ""}
            want_err = any(a["err"] for a in allowed)
            ok1 = compare(f"get_result_path({name!r}, latest=True)", "get_result_path", name, name, self._ask(lambda: proj.get_result_path(name, latest=True)), want_folders, want_err)
            if ok1:   # same function with the warning on: reported only when it differs from the muted call
                compare(f"get_result_path({name!r})", "get_result_path/warn", name, name, self._ask(lambda: proj.get_result_path(name)), want_folders, want_err)
            ok2 = compare(f"get_latest_result_path({name!r})", "get_latest_result_path", name, name, self._ask(lambda: proj.get_latest_result_path(name)), want_folders, want_err)
            if do_load and want_folders and not (want_folders & st.get("partial", set())):
                self.n_loads += 2
                if ok1:
                    compare(f"load_result({name!r}, latest=True)", "load_result/latest", name, name, self._ask(lambda: proj.load_result(name, latest=True)), want_folders, want_err)
                if ok2:
                    compare(f"load_latest_result({name!r})", "load_latest_result", name, name, self._ask(lambda: proj.load_latest_result(name)), want_folders, want_err)
        for i, (folder, (name, n)) in enumerate(sorted(st["folders"].items())):
            allowed = st["latest"][name]
            want_folders = {by_run[(a["ret"]["name"], a["ret"]["n"])] for a in allowed if a["err"] == ""}
            want_err = any(a["err"] for a in allowed)
            compare(f"get_result_path(<run specifier of {name!r}>)", "get_result_path", folder, name, self._ask(lambda: proj.get_result_path(folder)), {folder}, False, exact=True)
            ok = compare(f"get_latest_result_path(<run specifier of {name!r}>)", "get_latest_result_path", folder, name, self._ask(lambda: proj.get_latest_result_path(folder)), want_folders, want_err)
            if do_load and i == self.n_states % len(st["folders"]) and folder not in st.get("partial", set()):
                self.n_loads += 1
                compare(f"load_result(<run specifier of {name!r}>)", "load_result", folder, name, self._ask(lambda: proj.load_result(folder)), {folder}, False, exact=True)
                if ok and not (want_folders & st.get("partial", set())):
                    self.n_loads += 1
                    compare(f"load_latest_result(<run specifier of {name!r}>)", "load_latest_result", folder, name, self._ask(lambda: proj.load_latest_result(folder)), want_folders, want_err)

    # ------------------------------------------------------------------ walk
    def walk(self, edges, init_key, base: Path, n_models: int, edge_filter=None):
        out: dict = {}
        for e in edges:
            a = e["act"]
            op = "item" if a["op"].startswith("item_") else a["op"]     # the alternatives of one call (D4) form one group
            out.setdefault(e["src"], {}).setdefault((op, a["name"], a["ret"]["n"] if op == "remove" else -1, a["ignore"], a["allow"]), []).append(e)
        visited = {init_key}
        stack = [(init_key, Real.create(base, n_models))]
        executed = 0
        while stack:
            key, real = stack.pop()
            self.check_state(real, key)
            groups = sorted(out.get(key, {}).items())
            for label, alts in groups:
                if edge_filter and not edge_filter(key, label, alts):
                    continue
                r2 = real.fork()
                dst = self.execute(r2, key, alts)
                executed += len(alts)
                if dst is not None and self._shares_prefix(dst):
                    self.chk.nontriv((self.tag, "prefix-sharing", dst))
                if dst is not None and dst not in visited:
                    visited.add(dst)
                    stack.append((dst, r2))
                else:
                    r2.dispose()
            real.dispose()
        return len(visited), executed

    def _shares_prefix(self, key) -> bool:
        names = sorted({nm for nm, _ in self.states[key]["folders"].values()})
        return any(a != b and b.startswith(a) for a in names for b in names)

    # ------------------------------------------------------------------ verdicts
    def report(self):
        """One violation per (call, answer, expectation) and minimal state; larger states with the same class are counted."""
        def sub(a, b):
            # a state with at least as many runs of every name (and the same items) shows the same discrepancy class again
            return all(len(v) <= len(b["runs"].get(k, [])) for k, v in a["runs"].items()) and all(b["files"].get(k, 0) >= 1 for k in a["files"])

        self.mismatches.sort(key=lambda m: (m["size"] + len(m["files"]), json.dumps(m["runs"], sort_keys=True), json.dumps(m["files"], sort_keys=True)))
        minimal: list = []
        for m in self.mismatches:
            cls = (m["call"], m["got"], m["want"])
            host = next((x for x in minimal if x["cls"] == cls and sub(x["m"], m)), None)
            if host:
                host["more"] += 1
            else:
                minimal.append({"cls": cls, "m": m, "more": 0})
        for x in minimal:
            m = x["m"]
            where = f"runs={json.dumps(m['runs'], sort_keys=True)}" + (f" items={json.dumps(m['files'], sort_keys=True)}" if m["files"] else "")
            key = f"ProjectRuns: {m['call']} -> {m['got']}; expected {m['want']}; smallest state {where}"
            self.chk.violation(key, f"{m['detail']} (+{x['more']} larger states with the same discrepancy)", m["replay"])
        return len(minimal)


def init_key(kinds, names) -> str:
    return core_key({"runs": [], "files": {k: 0 for k in kinds}, "made": {n: 0 for n in names}, "nrem": 0})


def run_graph(chk: Check, level, names, kinds, max_runs, max_writes, max_removes, label, load_every=1, edge_budget=None, rng=None, max_fails=0):
    states, edges = load_graph(chk, names, kinds, max_runs, max_writes, max_removes, label, max_fails=max_fails)
    rp = Replayer(chk, level, states, names, label, load_every)
    flt = None
    if edge_budget is not None and len(edges) > edge_budget:
        keep = set(rng.sample(range(len(edges)), edge_budget))
        chosen = {id(e) for i, e in enumerate(edges) if i in keep}
        flt = lambda key, lab, alts: any(id(a) in chosen for a in alts)  # noqa: E731
        chk.exhaustive = False
    base = Path(tempfile.mkdtemp(prefix="verif_c18p_"))
    try:
        nst, ned = rp.walk(edges, init_key(kinds, names), base, max_writes + 1, flt)
    finally:
        shutil.rmtree(base, ignore_errors=True)
    if flt is None and ned < len(edges):
        chk.skip(f"{label}/{level}: edges not executed because the real state diverged earlier", len(edges) - ned)
    if flt is None and nst < len(states):
        chk.skip(f"{label}/{level}: states not reached on the real project", len(states) - nst)
    chk.traces += ned
    nviol = rp.report()
    chk.extra.setdefault("project_runs", {})[f"{label}/{level}"] = {
        "spec_states": len(states), "spec_edges": len(edges), "states_reached": nst, "edges_executed": ned, "lookups_compared": rp.n_lookups,
        "results_loaded": rp.n_loads, "states_repaired_after_failed_optimize": rp.repaired, "discrepancy_classes": nviol}
    if states:
        mid = sorted(states)[len(states) // 2]
        chk.sample({"engine": f"ProjectRuns[{label}/{level}]", "state": rp._runs_of(mid) or states[mid]["core"]["files"],
                    "latest_allowed": {k: [(a["ret"]["name"], a["ret"]["n"], a["err"]) for a in v] for k, v in states[mid]["latest"].items()}})
    return rp


# --------------------------------------------------------------------------------- replay of one stored case
def replay(chk: Check, r):
    base = Path(tempfile.mkdtemp(prefix="verif_c18p_"))
    try:
        if r["engine"] == "c18-items":
            files = r["files"]
            kinds = sorted(files)
            states = {"src": {"core": {"runs": [], "files": files}, "latest": {}, "folders": {}}}
            rp = Replayer(chk, "project", states, [], "replay")
            real = Real.create(base, max(list(files.values()) + [1]) + 1)
            # rebuild the item files by the same API (first write of each existing item)
            for k in kinds:
                for v in range(files[k]):
                    st = {"core": {"runs": [], "files": {kk: (v if kk == k else 0) for kk in kinds}}, "latest": {}, "folders": {}}
                    rp.states["tmp"] = st
                    rp.exec_item(real, "tmp", [{"act": {"op": "item_written", "name": k, "ignore": False, "allow": True}, "dst": "x"}])
            rp.mismatches.clear()
            alts = [{"act": {"op": op, "name": r["kind"], "ignore": r["ignore"], "allow": r["allow"]}, "dst": op} for op in r["allowed"]]
            rp.exec_item(real, "src", alts)
            rp.report()
            return
        folders = {f: v for f, v in r["state"]}
        names = sorted({v[0] for v in folders.values()} | set(NAMES))
        st = {"core": {"runs": [], "files": {}}, "folders": folders, "latest": {}}
        rp = Replayer(chk, r["level"], {"src": st, "dst": st}, names, "replay", load_every=1)
        real = Real.create(base, 0)
        from glotaran.io import save_result
        with warnings.catch_warnings():
            warnings.simplefilter("ignore")
            for f in sorted(folders):      # the state itself is put in place directly; the operation under test is the real one
                save_result(objects()["result"], real.results / f / "result.yml")
                real.run_fp[f] = folder_digest(real.results / f)
        if r["op"] == "optimize":
            rp.exec_optimize(real, "src", [{"act": {"op": "optimize", "name": r["name"]}, "folder": r["folder"], "dst": "dst"}])
        elif r["op"] == "results":
            got = sorted(rp.project(real).results.keys())
            if got != sorted(folders):
                rp.mismatch("Project.results", "a different set of results", "one entry per run folder", "src", f"got {got}", r)
        else:
            proj = rp.project(real)
            api = r["api"]
            fn = {"get_result_path": lambda: proj.get_result_path(r["arg"], latest=True), "get_result_path/warn": lambda: proj.get_result_path(r["arg"]),
                  "get_latest_result_path": lambda: proj.get_latest_result_path(r["arg"]), "load_result/latest": lambda: proj.load_result(r["arg"], latest=True),
                  "load_latest_result": lambda: proj.load_latest_result(r["arg"]), "load_result": lambda: proj.load_result(r["arg"])}[api]
            got = rp._ask(fn)
            kind, val = got
            if kind == "exc":
                ok = r["want_err"] and type(val) is ValueError
            else:
                p = Path(val if not hasattr(val, "source_path") else Path(val.source_path).parent)
                got = ("ok", p)
                ok = p.parent == real.results and p.name in r["want_folders"]
            print(f"replay: {api}({r['arg']!r}) in state {sorted(folders)} answered {got[1]!r}; allowed {r['want_folders']}{' or ValueError' if r['want_err'] else ''}")
            if not ok:
                gsym, _ = rp._sym(real, st, r["name"], got)
                arg = f"<run specifier of {r['name']!r}>" if r["arg"] != r["name"] else repr(r["arg"])
                shown = {"get_result_path": f"get_result_path({arg}{', latest=True' if r['arg'] == r['name'] else ''})", "get_result_path/warn": f"get_result_path({arg})",
                         "get_latest_result_path": f"get_latest_result_path({arg})", "load_result/latest": f"load_result({arg}, latest=True)",
                         "load_latest_result": f"load_latest_result({arg})", "load_result": f"load_result({arg})"}[api]
                wants = (["exactly that run"] if r.get("exact") else (["the latest run of that name"] if r["want_folders"] else [])) + (["ValueError (no such result)"] if r["want_err"] else [])
                rp.mismatch(shown, gsym, " or ".join(wants), "src", f"answered {got[1]!r:.200}", r)
        rp.report()
    finally:
        shutil.rmtree(base, ignore_errors=True)
