"""C08 — interval-scoped constraints, relations, penalties, weights act on their interval.

spec/Intervals.tla enumerates every (axis, interval list) on a half-step grid (finite, half-infinite, infinite,
reversed, degenerate, between points, outside the axis), checks the algebra of Must/May (closedness, union,
complement, monotonicity, infinite bounds) and emits Must and May; the real code's affected sets must satisfy
Must <= Aff <= May (exact membership for constraints / relations), be monotone, and act accordingly end to end.
"""
from __future__ import annotations

import json
import math
import random
import warnings
from itertools import combinations

from .core import Check, MachineryError, seed
from .tlc import printed_json, require_actions, run_tlc

INVS = ["MustInMay", "Complement", "UnionOfIntervals", "OrderInsensitive", "InfiniteReachesEnd", "Monotone"]


def cfg(grid, maxaxis, bounds, nint, emit=False):
    lines = ["SPECIFICATION Spec", "CONSTANTS", "  Grid = {" + ",".join(map(str, grid)) + "}", f"  MaxAxis = {maxaxis}", f"  Bounds <- {bounds}",
             f"  NIntervals = {nint}", "CHECK_DEADLOCK FALSE"]
    lines += ["CONSTRAINT Emit"] if emit else [f"INVARIANT {i}" for i in INVS]
    return "\n".join(lines) + "\n"


def co(b):
    return math.inf if b >= 1000 else (-math.inf if b <= -1000 else b / 2)


def iv_str(iv):
    def s(b):
        return "+inf" if b >= 1000 else ("-inf" if b <= -1000 else str(b / 2))
    kind = []
    if iv[0] > iv[1]:
        kind.append("reversed")
    if abs(iv[0]) >= 1000 or abs(iv[1]) >= 1000:
        kind.append("infinite")
    return f"({s(iv[0])},{s(iv[1])})", "+".join(kind) or "finite"


def aff_constraint(kind, axis, ivs, single):
    from glotaran.model.clp_constraint import OnlyConstraint, ZeroConstraint
    from glotaran.model.clp_relation import ClpRelation
    t = [(co(a), co(b)) for a, b in ivs]
    interval = t[0] if single else t
    if kind == "zero":
        it = ZeroConstraint(target="a", interval=interval)
    elif kind == "only":
        it = OnlyConstraint(target="a", interval=interval)
    else:
        it = ClpRelation(source="b", target="a", parameter="p", interval=interval)
    return [p for p in axis if it.applies(p / 2)]


def aff_slice(axis, iv):
    import numpy as np
    from glotaran.optimization.data_provider import DataProvider
    ax = np.array(axis, dtype=float) / 2
    sl = DataProvider.get_axis_slice_from_interval((co(iv[0]), co(iv[1])), ax)
    return [axis[i] for i in range(*sl.indices(len(axis)))]


def aff_area(axis, ivs, per_index_labels):
    import numpy as np
    from glotaran.optimization.estimation_provider import _get_area
    ax = np.array(axis, dtype=float) / 2
    clps = [np.array([float(i + 1)]) for i in range(len(axis))]
    labels = [["a"] for _ in axis] if per_index_labels else ["a"]
    area = _get_area("a", labels, clps, [(co(a), co(b)) for a, b in ivs], ax)
    return sorted({axis[int(v) - 1] for v in area})


def unit_checks(chk: Check, cases, tag):
    table = {}
    for c in cases:
        axis, ivs, must, may = c["axis"], c["ivs"], set(c["must"]), set(c["may"])
        desc = f"axis={[p / 2 for p in axis]} intervals={[iv_str(iv)[0] for iv in ivs]}"
        kinds = "+".join(sorted({iv_str(iv)[1] for iv in ivs}))
        rep = {"engine": "c08-unit", "case": c}
        cut = 0 < len(must) < len(axis)
        if cut:
            chk.nontriv(json.dumps([axis, ivs]))
        for single in ([True, False] if len(ivs) == 1 else [False]):
            for kind in ("zero", "relation", "only"):
                chk.evaluations += 1
                got = set(aff_constraint(kind, axis, ivs, single))
                want = (set(axis) - must) if kind == "only" else must
                if got != want:
                    chk.violation(f"Intervals[{kind}.applies]: {kinds}", f"{kind} with {desc} ({'tuple' if single else 'list'}): applies on {sorted(p / 2 for p in got)}, specification {sorted(p / 2 for p in want)}", rep)
        if len(ivs) == 1:
            chk.evaluations += 1
            got = set(aff_slice(axis, ivs[0]))
            table[(tuple(axis), tuple(ivs[0]), "slice")] = got
            if not (must <= got <= may):
                chk.violation(f"Intervals[weight slice]: {kinds}", f"get_axis_slice_from_interval {desc}: affects {sorted(p / 2 for p in got)}, must contain {sorted(p / 2 for p in must)} and stay within {sorted(p / 2 for p in may)}", rep)
        for per_index in (False, True):
            chk.evaluations += 1
            got = set(aff_area(axis, ivs, per_index))
            if len(ivs) == 1:
                table[(tuple(axis), tuple(ivs[0]), "area")] = got
            if not (must <= got <= may):
                chk.violation(f"Intervals[penalty area]: {kinds}", f"_get_area {desc}: sums over {sorted(p / 2 for p in got)}, must contain {sorted(p / 2 for p in must)} and stay within {sorted(p / 2 for p in may)}", rep)
                break
        chk.traces += 1
    # monotonicity of the implementation: Closed(I) <= Closed(I') => Aff(I) <= Aff(I')
    by_axis = {}
    for (axis, iv, what), aff in table.items():
        by_axis.setdefault((axis, what), []).append((iv, aff))
    for (axis, what), lst in by_axis.items():
        for (i1, a1) in lst:
            lo1, hi1 = min(i1), max(i1)
            for (i2, a2) in lst:
                if min(i2) <= lo1 and hi1 <= max(i2) and not a1 <= a2:
                    k1, k2 = iv_str(i1), iv_str(i2)
                    chk.violation(f"Intervals[{what} monotone]: {k1[1]} within {k2[1]}",
                                  f"{what} on axis {[p / 2 for p in axis]}: interval {k1[0]} affects {sorted(p / 2 for p in a1)} but the larger {k2[0]} only {sorted(p / 2 for p in a2)}",
                                  {"engine": "c08-mono", "axis": list(axis), "i1": list(i1), "i2": list(i2), "what": what})
                chk.evaluations += 1


def e2e(chk: Check, cases, rng, n):
    """Through optimize(): zero pattern of constrained clps, related clps, reported weights, equal-area penalty value."""
    import numpy as np
    from .c03 import run_optimize
    singles = [c for c in cases if len(c["ivs"]) == 1 or rng.random() < 0.5]
    for c in rng.sample(singles, min(n, len(singles))):
        axis, ivs, must, may = c["axis"], c["ivs"], set(c["must"]), set(c["may"])
        coords = [p / 2 for p in axis]
        tiv = [[("inf" if b >= 1000 else ("-inf" if b <= -1000 else b / 2)) for b in iv] for iv in ivs]
        kind = rng.choice(["zero", "only", "relation", "weight", "penalty"])
        if kind in ("weight", "penalty") and len(ivs) > 1:
            kind = "zero"       # weights take one interval; multiplicity of overlapping penalty intervals is not judged (unit level compares sets)
        link = rng.choice([True, False])
        nm = 5          # degrees of freedom >= 1 also for a one-point axis (D11)
        ng = len(axis)
        cols = [[1, 1, 1, 1, 1], [0, 1, 2, 3, 4], [1, 0, 2, 1, 0]]
        data = [[rng.randint(1, 9) for _ in range(ng)] for _ in range(nm)]
        case = {"groups": [{"label": "default", "link": link}],
                "datasets": [{"label": "d1", "group": "default", "axis": coords, "data": data, "scale": 1, "weight": [],
                              "mcs": [{"scale": 1, "labels": ["a", "b", "c"], "idx": False, "cols": cols}]}],
                "relations": [], "constraints": [], "penalties": [], "weights": []}
        rel_first = False
        if kind in ("zero", "only"):
            case["constraints"] = [{"type": kind, "target": "a", "ivs": tiv, "single": len(tiv) == 1 and rng.random() < 0.5}]
            # a relation on the SAME clp at the first axis point only (where the constraint does not apply): the labels of the first index
            # then differ from those of the others, and the constraint must still be applied wherever it holds
            zero_first = (axis[0] in may) if kind == "zero" else (axis[0] not in must)
            if len(axis) >= 2 and not zero_first and rng.random() < 0.5:
                case["relations"] = [{"source": "b", "target": "a", "param": 2, "ivs": [[axis[0] / 2, axis[0] / 2]], "single": rng.random() < 0.5}]
                rel_first = True
        elif kind == "relation":
            case["relations"] = [{"source": "b", "target": "a", "param": 2, "ivs": tiv, "single": len(tiv) == 1 and rng.random() < 0.5}]
            # a second relation for the same target on a single point outside the first interval: each index uses ITS relation
            outside = [p for p in axis if p not in may]
            p2 = rng.choice(outside) if outside and rng.random() < 0.6 else None
            if p2 is not None:
                case["relations"].append({"source": "c", "target": "a", "param": 3, "ivs": [[p2 / 2, p2 / 2]], "single": rng.random() < 0.5})
        elif kind == "weight":
            case["weights"] = [{"datasets": ["d1"], "givs": tiv, "mivs": [], "value": 3}]
            if rng.random() < 0.5:
                # a second weight on the same dataset without interval acts everywhere (factor 1 here so that the pattern stays readable: 3 vs 1 ... times 1)
                case["weights"].append({"datasets": ["d1"], "givs": [], "mivs": [[0, 0]], "value": 7})
            if rng.random() < 0.4:
                # full model (global megacomplex): the weight is applied to the flattened problem, which must weight each point like the 2-d problem does
                case["groups"][0]["link"] = False
                case["datasets"][0]["gmcs"] = [{"scale": 1, "labels": ["x", "y"][: 1 + (ng > 1)],
                                                "cols": [[1] * ng, [g % 3 for g in range(ng)]][: 1 + (ng > 1)]}]
                case["datasets"][0]["mcs"][0]["labels"] = ["a", "b"]
                case["datasets"][0]["mcs"][0]["cols"] = cols[:2]
        else:
            case["penalties"] = [{"source": "a", "sivs": tiv, "target": "b", "tivs": [], "param": 2, "weight": 3}]
        desc = f"{kind} axis={coords} intervals={tiv} link={link}"
        kinds = "+".join(sorted({iv_str(iv)[1] for iv in ivs}))
        rep = {"engine": "c08-e2e", "case": case, "spec": c, "kind": kind}
        chk.evaluations += 1
        try:
            res, w = run_optimize(case)
        except Exception as ex:  # noqa: BLE001
            chk.violation(f"Intervals[e2e {kind} raises {type(ex).__name__}]: {kinds}", f"optimize raised {type(ex).__name__}: {str(ex)[:200]}; {desc}", rep)
            continue
        rd = res.data["d1"]
        if kind in ("zero", "only"):
            zero_at = must if kind == "zero" else set(axis) - must
            for p in axis:
                v = float(rd.clp.sel(spectral=p / 2, clp_label="a"))
                if rel_first and p == axis[0]:
                    continue        # related there (a = 2 b), judged by the solved-reduction certificate below
                if (p in zero_at) != (v == 0.0):
                    chk.violation(f"Intervals[e2e {kind}]: {kinds}", f"{desc}: clp[a] at {p / 2} is {v!r}; the constraint {'applies' if p in zero_at else 'does not apply'} there", rep)
                    break
            exp_nclp = sum(2 if (p in zero_at or (rel_first and p == axis[0])) else 3 for p in axis)
            if res.number_of_clps != exp_nclp:
                chk.violation(f"Intervals[e2e {kind} number_of_clps]: {kinds}", f"{desc}: number_of_clps {res.number_of_clps}, specification {exp_nclp}", rep)
        elif kind == "relation":
            p2 = next((int(round(r["ivs"][0][0] * 2)) for r in case["relations"][1:]), None)
            for p in axis:
                a = float(rd.clp.sel(spectral=p / 2, clp_label="a"))
                b = float(rd.clp.sel(spectral=p / 2, clp_label="b"))
                c_ = float(rd.clp.sel(spectral=p / 2, clp_label="c"))
                related = abs(a - 2 * b) <= 1e-12 * max(1, abs(a))
                if p in must and not related:
                    chk.violation(f"Intervals[e2e relation]: {kinds}", f"{desc}: at {p / 2} clp[a]={a} != 2 x clp[b]={b} inside the interval", rep)
                    break
                if p == p2 and abs(a - 3 * c_) > 1e-12 * max(1, abs(a)):
                    chk.violation(f"Intervals[e2e second relation]: {kinds}", f"{desc}: at {p / 2} (the single-point interval of the second relation) clp[a]={a} != 3 x clp[c]={c_}", rep)
                    break
            exp_nclp = sum(2 if (p in must or p == p2) else 3 for p in axis)
            if res.number_of_clps != exp_nclp:
                chk.violation(f"Intervals[e2e relation number_of_clps]: {kinds}", f"{desc}: number_of_clps {res.number_of_clps}, specification {exp_nclp}", rep)
        elif kind == "weight":
            if "weight" not in rd:
                chk.violation(f"Intervals[e2e weight missing]: {kinds}", f"{desc}: no weight in result", rep)
                continue
            second = len(case["weights"]) > 1      # second weight: every global index, model coordinate 0 only -> factor 7 at time 0, nothing at time 1
            f0 = 7.0 if second else 1.0
            aff = {p for p in axis if float(rd.weight.sel(spectral=p / 2, time=0.0)) == 3.0 * f0 and float(rd.weight.sel(spectral=p / 2, time=1.0)) == 3.0}
            other = {p for p in axis if float(rd.weight.sel(spectral=p / 2, time=0.0)) == f0 and float(rd.weight.sel(spectral=p / 2, time=1.0)) == 1.0}
            if aff | other != set(axis) or not (must <= aff <= may):
                chk.violation(f"Intervals[e2e weight]: {kinds}", f"{desc}: weight applied at {sorted(p / 2 for p in aff)}, must contain {sorted(p / 2 for p in must)} within {sorted(p / 2 for p in may)}", rep)
            # the reported weight is also the APPLIED one: the returned clps satisfy the normal equations of the problem weighted with it
            W = rd.weight.transpose("time", "spectral").values
            R = rd.residual.transpose("time", "spectral").values
            D = np.array(case["datasets"][0]["data"], dtype=float)
            mc = case["datasets"][0]["mcs"][0]
            A = np.array(mc["cols"], dtype=float).T
            gm = case["datasets"][0].get("gmcs") or []
            if gm:
                G = np.array(gm[0]["cols"], dtype=float).T
                grad = A.T @ (W * W * R) @ G
            else:
                grad = A.T @ (W * W * R)
            scale_ = float(np.abs(W * W * D).sum()) * float(np.abs(A).max()) + 1.0
            if not np.all(np.abs(grad) <= 1e-9 * scale_):
                chk.violation(f"Intervals[e2e weight applied{' full model' if gm else ''}]: {kinds}",
                              f"{desc}: the fitted clps do not minimise the problem weighted with the reported weight (normal equations off by {float(np.abs(grad).max()):.3g}): "
                              f"the weight applied to the fit is not the one the interval selects", rep)
        if kind in ("zero", "only", "relation"):
            # the reduction that was SOLVED is the one the intervals select: at every index the reported residual is data - matrix x clp, and it
            # is orthogonal to the columns of the reduced matrix of THAT index (the clps alone cannot show a wrong reduction: they are re-expanded
            # with the right relation afterwards)
            A = np.array(cols, dtype=float).T
            D = np.array(data, dtype=float)
            R = rd.residual.transpose("time", "spectral").values
            C = np.array([[float(rd.clp.sel(spectral=p / 2, clp_label=l)) for l in ("a", "b", "c")] for p in axis]).T
            if not np.allclose(R, D - A @ C, rtol=0, atol=1e-9 * (1 + float(np.abs(D).max()))):
                chk.violation(f"Intervals[e2e {kind} residual identity]: {kinds}", f"{desc}: residual != data - matrix x clp (max deviation {float(np.abs(R - (D - A @ C)).max()):.3g})", rep)
            else:
                p2_ = next((int(round(r["ivs"][0][0] * 2)) for r in case["relations"][1:]), None) if kind == "relation" else None
                for j, p in enumerate(axis):
                    a_, b_, c_ = A[:, 0], A[:, 1], A[:, 2]
                    if kind == "relation":
                        red = [b_ + 2 * a_, c_] if p in must else ([b_, c_ + 3 * a_] if p == p2_ else ([a_, b_, c_] if p not in may else None))
                    elif rel_first and p == axis[0]:
                        red = [b_ + 2 * a_, c_]
                    else:
                        red = [b_, c_] if p in zero_at else [a_, b_, c_]
                    if red is None:
                        continue
                    g_ = np.array(red) @ R[:, j]
                    if np.abs(g_).max() > 1e-8 * (1 + float(np.abs(D).max()) * float(np.abs(A).max())):
                        chk.violation(f"Intervals[e2e {kind} solved reduction]: {kinds}",
                                      f"{desc}: at {p / 2} the residual is not orthogonal to the reduced matrix the items select there (off by {float(np.abs(g_).max()):.3g}): another reduction was solved", rep)
                        break
        elif kind == "weight":
            pass
        else:
            got = [float(v) for g in res.additional_penalty for v in g]
            a = {p: float(rd.clp.sel(spectral=p / 2, clp_label="a")) for p in axis}
            tb = sum(float(rd.clp.sel(spectral=p / 2, clp_label="b")) for p in axis)
            extra = sorted(may - must)
            allowed = []
            for r in range(len(extra) + 1):
                for sub in combinations(extra, r):
                    aff = must | set(sub)
                    if aff:
                        allowed.append(3 * abs(sum(a[p] for p in aff) - 2 * tb))
            if not must and not allowed:
                allowed = []
            ok = (len(got) == 0 and (not must)) or (len(got) == 1 and any(abs(got[0] - v) <= 1e-9 * max(1, abs(v)) for v in allowed))
            if not ok:
                chk.violation(f"Intervals[e2e penalty]: {kinds}", f"{desc}: additional_penalty {got}; allowed values (areas between Must and May) {allowed}", rep)
        chk.traces += 1


def weight_precedence(chk: Check):
    """dataset weight and model weight both given: the dataset's weight is used and a warning is issued."""
    from .c03 import run_optimize
    case = {"groups": [{"label": "default", "link": False}],
            "datasets": [{"label": "d1", "group": "default", "axis": [0, 1], "data": [[1, 2], [3, 5], [2, 2]], "scale": 1, "weight": [[1, 2], [2, 1], [1, 1]],
                          "mcs": [{"scale": 1, "labels": ["a"], "idx": False, "cols": [[1, 1, 1]]}]}],
            "relations": [], "constraints": [], "penalties": [], "weights": [{"datasets": ["d1"], "givs": [], "mivs": [], "value": 5}]}
    rep = {"engine": "c08-precedence", "case": case}
    chk.evaluations += 1
    try:
        res, w = run_optimize(case)
    except Exception as ex:  # noqa: BLE001
        chk.violation("Intervals[weight precedence]: dataset weight and model weight", f"optimize raised {type(ex).__name__}: {str(ex)[:200]} instead of using the dataset's weight with a warning", rep)
        return
    wt = res.data["d1"].weight.transpose("time", "spectral").values.tolist()
    if wt != [[1.0, 2.0], [2.0, 1.0], [1.0, 1.0]]:
        chk.violation("Intervals[weight precedence]: dataset weight and model weight", f"reported weight {wt} is not the dataset's weight", rep)
    if not any("weight" in str(x.message).lower() for x in w):
        chk.violation("Intervals[weight precedence warning]: dataset weight and model weight", "no warning was issued when the model weight was ignored", rep)
    chk.traces += 1


def run(tier: str, replay=None) -> int:
    chk = Check("C08", tier)
    rng = random.Random(seed() + 808)
    chk.rule = ("every strictly increasing axis of 1-3 (4 in thorough) points of an integer grid x every ordered pair of bounds on the half-step grid incl. +-inf "
                "(reversed, degenerate, between points, outside), lists of two intervals; six item kinds at unit level, five end to end; non-trivial = the interval cuts the axis strictly")
    chk.assumptions = ["D2: weight slices and penalty areas may affect any set between Must and May; constraints and relations use exact closed membership",
                       "overlapping interval lists: multiplicity in penalty areas is not judged (the property is silent)",
                       "coordinates = grid position / 2 (exact in binary floating point)"]
    if replay:
        r = replay["replay"]
        if r["engine"] == "reduce-trace":
            from . import reduce_trace
            reduce_trace.replay(chk, r)
        elif r["engine"] == "c08-unit":
            unit_checks(chk, [r["case"]], "replay")
        elif r["engine"] == "c08-precedence":
            weight_precedence(chk)
        elif r["engine"] == "c08-mono":
            a1, a2 = (set(aff_slice(r["axis"], r["i1"])), set(aff_slice(r["axis"], r["i2"]))) if r["what"] == "slice" else (set(aff_area(r["axis"], [r["i1"]], False)), set(aff_area(r["axis"], [r["i2"]], False)))
            if not a1 <= a2:
                chk.violation(replay["key"], f"{r['what']}: {sorted(a1)} not within {sorted(a2)}", r)
        else:
            e2e_one = [r["spec"]]
            e2e(chk, e2e_one, random.Random(0), 1)
        return chk.finish()
    if tier == "quick":
        plans = [([0, 2, 4, 6, 8], 3, "QuickBounds", 1, 250), ([0, 2, 6], 3, "SmallBounds", 2, 150)]
    else:
        plans = [([0, 2, 4, 6, 8], 4, "QuickBounds", 1, 3000), ([0, 2, 6, 8], 3, "SmallBounds", 2, 2000)]
    for grid, maxaxis, bounds, nint, ne2e in plans:
        res = run_tlc("Intervals", cfg(grid, maxaxis, bounds, nint), workers=8, timeout=3000)
        require_actions(res, ["ChooseAxis", "ChooseInterval", "Finish"])
        chk.add_tlc(res, f"Intervals[{bounds},n={nint}]")
        em = run_tlc("IntervalsEmit", cfg(grid, maxaxis, bounds, nint, emit=True), workers=1, timeout=3000, coverage=False)
        cases = [c for c in printed_json(em["stdout"], "CASE") if len(c["ivs"]) == nint]
        if not cases:
            raise MachineryError("IntervalsEmit: no cases")
        unit_checks(chk, cases, bounds)
        e2e(chk, cases, rng, ne2e)
        chk.sample(cases[len(cases) // 3])
    weight_precedence(chk)
    from . import reduce_trace
    reduce_trace.run(chk, tier)       # code -> spec: recorded reductions of real matrix providers (driver on real-valued coordinates + repository tests)
    return chk.finish()
