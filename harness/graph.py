"""Walk a TLC-emitted transition list so that every edge is executed on the real object once.

Edges are dicts with hashable 'src' and 'dst' keys.  The real object is forked (copied) at
every branching point, so each edge costs one real operation.
"""
from __future__ import annotations

from collections import defaultdict


def walk_edges(edges, init_key, make_init, fork, execute, on_state=None):
    """edges: iterable of dict(src, dst, ...).  make_init() -> real object in the init state.
    fork(obj) -> independent copy.  execute(obj, edge) -> None (mutates obj; reports mismatches itself)
    Returns (n_states_visited, n_edges_executed)."""
    out = defaultdict(list)
    for e in edges:
        out[e["src"]].append(e)
    visited = {init_key}
    stack = [(init_key, make_init())]
    n_edges = 0
    while stack:
        key, obj = stack.pop()
        if on_state:
            on_state(key, obj)
        for e in out.get(key, ()):
            o2 = fork(obj)
            ok = execute(o2, e)
            n_edges += 1
            if ok is not False and e["dst"] not in visited:
                visited.add(e["dst"])
                stack.append((e["dst"], o2))
    return len(visited), n_edges
