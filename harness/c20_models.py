"""Base models of the C20 generator (raw model dictionaries, yaml-like: dict keys of k-matrices are "(to, from)" strings).

Nothing in this file says which attribute is a reference: that knowledge (the reference schema) is written by hand
in spec/Validation.tla and applied there.  Parameter values are only used for the "fill and evaluate" clause.
"""
from __future__ import annotations

import copy

TIME = [-1.0, -0.5, 0.0, 0.25, 0.5, 1.0, 2.0, 4.0, 8.0]
SPECTRAL = [600.0, 620.0, 640.0]


def _decay_full():
    model = {
        "megacomplex": {
            "mc_decay": {"type": "decay", "k_matrix": ["km1", "km2"]},
            "mc_base": {"type": "baseline", "dimension": "time"},
            "mc_base2": {"type": "baseline", "dimension": "time"},
            "mc_par": {"type": "decay-parallel", "compartments": ["p1"], "rates": ["rates.p1"]},
        },
        "k_matrix": {
            "km1": {"matrix": {"(s2, s1)": "kinetic.k21", "(s2, s2)": "kinetic.k22"}},
            "km2": {"matrix": {"(s1, s1)": "kinetic.k11"}},
        },
        "initial_concentration": {
            "j1": {"compartments": ["s1", "s2"], "parameters": ["inputs.j1", "inputs.j0"]},
            "j2": {"compartments": ["s1", "s2"], "parameters": ["inputs.j1", "inputs.j1"], "exclude_from_normalize": ["s2"]},
        },
        "irf": {
            "irf_multi": {"type": "multi-gaussian", "center": ["irf.c1"], "width": ["irf.w1", "irf.w2"], "scale": ["irf.s1", "irf.s2"],
                          "shift": ["irf.sh1", "irf.sh2", "irf.sh3"], "backsweep": True, "backsweep_period": "irf.bsp"},
            "irf_gauss": {"type": "gaussian", "center": "irf.c1", "width": "irf.w1"},
        },
        "dataset_groups": {"second": {"residual_function": "non_negative_least_squares", "link_clp": False}},
        "dataset": {
            "d1": {"megacomplex": ["mc_decay", "mc_base"], "megacomplex_scale": ["scale.m1", "scale.m2"], "initial_concentration": "j1",
                   "irf": "irf_multi", "scale": "scale.d1"},
            "d2": {"megacomplex": ["mc_decay"], "initial_concentration": "j2", "irf": "irf_gauss", "group": "second"},
        },
        "clp_relations": [{"source": "s1", "target": "s2", "parameter": "rel.r1", "interval": [[0.0, 610.0]]}],
        "clp_penalties": [{"type": "equal_area", "source": "s1", "source_intervals": [[600.0, 640.0]], "target": "s2",
                           "target_intervals": [[600.0, 640.0]], "parameter": "pen.p1", "weight": 0.5}],
        "clp_constraints": [{"type": "zero", "target": "s2", "interval": [[630.0, 650.0]]}],
        "weights": [{"datasets": ["d1", "d2"], "global_interval": [600.0, 620.0], "value": 0.5}, {"datasets": ["d2"], "value": 2.0}],
    }
    params = {"kinetic.k21": 0.4, "kinetic.k22": 0.1, "kinetic.k11": 0.5, "inputs.j1": 1.0, "inputs.j0": 0.0, "irf.c1": 0.1, "irf.w1": 0.2,
              "irf.w2": 0.4, "irf.s1": 1.0, "irf.s2": 0.3, "irf.sh1": 0.0, "irf.sh2": 0.01, "irf.sh3": 0.02, "irf.bsp": 20.0,
              "scale.m1": 1.0, "scale.m2": 0.5, "scale.d1": 2.0, "rel.r1": 0.7, "pen.p1": 1.1, "rates.p1": 0.3, "spare.unused": 1.0}
    return {"name": "decay_full", "model": model, "parameters": params}


def _spectral_full_model():
    model = {
        "megacomplex": {
            "mc_seq": {"type": "decay-sequential", "compartments": ["s1", "s2"], "rates": ["rates.k1", "rates.k2"]},
            "mc_spec": {"type": "spectral", "shape": {"s1": "sh_gauss", "s2": "sh_skew"}},
            "mc_spec2": {"type": "spectral", "shape": {"s3": "sh_one", "s4": "sh_zero"}},
        },
        "shape": {
            "sh_gauss": {"type": "gaussian", "amplitude": "shapes.a1", "location": "shapes.l1", "width": "shapes.w1"},
            "sh_skew": {"type": "skewed-gaussian", "location": "shapes.l2", "width": "shapes.w2", "skewness": "shapes.sk2"},
            "sh_one": {"type": "one"},
            "sh_zero": {"type": "zero"},
        },
        "irf": {
            "irf_disp": {"type": "spectral-gaussian", "center": "irf.center", "width": "irf.width", "dispersion_center": "irf.dc",
                         "center_dispersion_coefficients": ["irf.cd1", "irf.cd2"], "width_dispersion_coefficients": ["irf.wd1"]},
            "irf_mdisp": {"type": "spectral-multi-gaussian", "center": ["irf.center"], "width": ["irf.width"], "dispersion_center": "irf.dc",
                          "center_dispersion_coefficients": ["irf.cd1"]},
        },
        "dataset": {
            "d1": {"megacomplex": ["mc_seq"], "global_megacomplex": ["mc_spec"], "global_megacomplex_scale": ["scale.g1"], "irf": "irf_disp"},
            "d2": {"megacomplex": ["mc_seq"], "global_megacomplex": ["mc_spec", "mc_spec2"], "irf": "irf_mdisp"},
        },
    }
    params = {"rates.k1": 0.6, "rates.k2": 0.2, "shapes.a1": 2.0, "shapes.l1": 610.0, "shapes.w1": 15.0, "shapes.l2": 630.0, "shapes.w2": 20.0,
              "shapes.sk2": 0.1, "irf.center": 0.1, "irf.width": 0.2, "irf.dc": 620.0, "irf.cd1": 0.01, "irf.cd2": 0.001, "irf.wd1": 0.001,
              "scale.g1": 1.5}
    return {"name": "spectral_full_model", "model": model, "parameters": params}


def _oscillation():
    model = {
        "megacomplex": {
            "mc_osc": {"type": "damped-oscillation", "labels": ["osc1", "osc2"], "frequencies": ["osc.f1", "osc.f2"], "rates": ["osc.r1", "osc.r2"]},
            "mc_osc_b": {"type": "damped-oscillation", "labels": ["osc3"], "frequencies": ["osc.f1"], "rates": ["osc.r2"]},
            "mc_par": {"type": "decay-parallel", "compartments": ["s1", "s2"], "rates": ["rates.k1", "rates.k2"]},
            "mc_coh": {"type": "coherent-artifact", "order": 3, "width": "coh.width"},
            "mc_coh2": {"type": "coherent-artifact", "order": 1},
        },
        "irf": {"irf1": {"type": "gaussian", "center": "irf.center", "width": "irf.width"}},
        "dataset": {
            "d1": {"megacomplex": ["mc_osc", "mc_par", "mc_coh"], "irf": "irf1"},
            "d2": {"megacomplex": ["mc_osc_b", "mc_osc"]},
        },
    }
    params = {"osc.f1": 25.0, "osc.f2": 60.0, "osc.r1": 0.3, "osc.r2": 0.6, "rates.k1": 0.5, "rates.k2": 0.1, "coh.width": 0.3,
              "irf.center": 0.1, "irf.width": 0.2}
    return {"name": "oscillation", "model": model, "parameters": params}


def _pfid():
    model = {
        "megacomplex": {
            "mc_pfid": {"type": "pfid", "labels": ["p1", "p2"], "frequencies": ["pfid.f1", "pfid.f2"], "rates": ["pfid.r1", "pfid.r2"]},
            "mc_base": {"type": "baseline", "dimension": "time"},
        },
        "irf": {"irf1": {"type": "gaussian", "center": "irf.center", "width": "irf.width"}},
        "dataset": {
            "d1": {"megacomplex": ["mc_pfid", "mc_base"], "irf": "irf1", "spectral_axis_scale": 2.0},
        },
    }
    params = {"pfid.f1": 610.0, "pfid.f2": 630.0, "pfid.r1": -0.5, "pfid.r2": -1.0, "irf.center": 0.1, "irf.width": 0.2}
    return {"name": "pfid", "model": model, "parameters": params}


def _guide():
    model = {
        "megacomplex": {
            "mc_guide": {"type": "clp-guide", "dimension": "time", "target": "s1"},
            "mc_guide2": {"type": "clp-guide", "dimension": "time", "target": "s2"},
            "mc_base": {"type": "baseline", "dimension": "time"},
            "mc_par": {"type": "decay-parallel", "compartments": ["s1", "s2"], "rates": ["rates.k1", "rates.k2"]},
            "mc_base_s": {"type": "baseline", "dimension": "spectral"},
            "mc_guide_s": {"type": "clp-guide", "dimension": "spectral", "target": "s1"},
        },
        "dataset": {
            "d1": {"megacomplex": ["mc_par"]},
            "d_guide": {"megacomplex": ["mc_guide"]},
            "d_full": {"megacomplex": ["mc_par"], "global_megacomplex": ["mc_base_s"]},
        },
    }
    params = {"rates.k1": 0.5, "rates.k2": 0.1}
    return {"name": "guide", "model": model, "parameters": params}


def _spectral_model():
    model = {
        "megacomplex": {
            "mc_spec": {"type": "spectral", "shape": {"s1": "sh1", "s2": "sh2"}},
            "mc_base": {"type": "baseline", "dimension": "spectral"},
        },
        "shape": {
            "sh1": {"type": "gaussian", "amplitude": "shapes.a1", "location": "shapes.l1", "width": "shapes.w1"},
            "sh2": {"type": "skewed-gaussian", "amplitude": "shapes.a2", "location": "shapes.l2", "width": "shapes.w2", "skewness": "shapes.sk2"},
        },
        "dataset": {"d1": {"megacomplex": ["mc_spec", "mc_base"], "spectral_axis_inverted": True, "spectral_axis_scale": 1e7, "scale": "scale.d1"}},
        "clp_relations": [{"source": "s1", "target": "s2", "parameter": "rel.r1"}],
    }
    params = {"shapes.a1": 2.0, "shapes.l1": 16000.0, "shapes.w1": 500.0, "shapes.a2": 1.0, "shapes.l2": 16200.0, "shapes.w2": 400.0,
              "shapes.sk2": 0.2, "scale.d1": 1.0, "rel.r1": 0.5}
    return {"name": "spectral_model", "model": model, "parameters": params}


def _shared_labels():
    """Labels need to be unique per item kind only: one label used for a megacomplex, a k-matrix, an initial concentration, an irf
    and a dataset.  Every reference must resolve in the registry of ITS kind."""
    model = {
        "megacomplex": {"main": {"type": "decay", "k_matrix": ["main"]}, "aux": {"type": "baseline", "dimension": "time"}},
        "k_matrix": {"main": {"matrix": {"(s2, s1)": "kinetic.k21", "(s2, s2)": "kinetic.k22"}}},
        "initial_concentration": {"main": {"compartments": ["s1", "s2"], "parameters": ["inputs.j1", "inputs.j0"]}},
        "irf": {"main": {"type": "gaussian", "center": "irf.c1", "width": "irf.w1"}},
        "dataset": {"main": {"megacomplex": ["main", "aux"], "initial_concentration": "main", "irf": "main"}},
    }
    params = {"kinetic.k21": 0.4, "kinetic.k22": 0.1, "inputs.j1": 1.0, "inputs.j0": 0.0, "irf.c1": 0.1, "irf.w1": 0.2}
    return {"name": "shared_labels", "model": model, "parameters": params}


def _generator_models():
    """The four model generators shipped with pyglotaran (glotaran.project.generators)."""
    from glotaran.project.generators.generator import generators
    res = []
    for name, irf, n in (("decay_parallel", True, 2), ("spectral_decay_parallel", False, 2), ("decay_sequential", False, 3),
                         ("spectral_decay_sequential", True, 2)):
        model = copy.deepcopy(generators[name](nr_compartments=n, irf=irf))
        params = {}
        for i in range(n):
            params[f"rates.species_{i + 1}"] = 0.5 / (i + 1)
            if "spectral" in name:
                params[f"shapes.species_{i + 1}.amplitude"] = 1.0 + i
                params[f"shapes.species_{i + 1}.location"] = 610.0 + 10 * i
                params[f"shapes.species_{i + 1}.width"] = 10.0
        if irf:
            params["irf.center"] = 0.1
            params["irf.width"] = 0.2
        res.append({"name": "gen_" + name, "model": model, "parameters": params})
    return res


def base_models(tier: str = "quick") -> list[dict]:
    res = [_decay_full(), _spectral_full_model(), _oscillation(), _pfid(), _guide(), _spectral_model(), _shared_labels()] + _generator_models()
    for b in res:
        b["axes"] = {"time": TIME, "spectral": SPECTRAL}
    return res
