"""C09 — CLP linking aligns global axes faithfully.

spec/ClpLink.tla is model-checked exhaustively (all axis sets on a half-step grid, all tolerances
relative to the spacing, all methods); every terminal state is emitted and the real alignment code
must land in the allowed set: unit level (create_aligned_global_axes on the real provider class,
exhaustive) and end to end (real schemes: aligned axis, stacked data / indices / groups / weights,
clp sharing in the optimisation result, AlignDatasetError).
"""
from __future__ import annotations

import json
import random
import warnings
from collections import defaultdict
from types import SimpleNamespace

from .core import Check, MachineryError, seed
from .tlc import printed_json, require_actions, run_tlc

INVS = ["ExactlyOne", "ItselfOrAligned", "Nearest", "MergedWhenPossible", "AlignedAxisIsUnion", "EveryColumnOnce",
        "RefusedIffAmbiguous", "NeverMergesOwnPoints"]


def cfg(positions, maxlen, nds, tols, methods, emit=False):
    def s(xs, q=False):
        return "{" + ", ".join((f'"{x}"' if q else str(x)) for x in xs) + "}"
    lines = ["SPECIFICATION Spec", "CONSTANTS", f"  Positions = {s(positions)}", f"  MaxLen = {maxlen}", f"  NDatasets = {nds}",
             f"  Tols = {s(tols)}", f"  Methods = {s(methods, True)}", "CHECK_DEADLOCK FALSE"]
    lines += ["CONSTRAINT Emit"] if emit else [f"INVARIANT {i}" for i in INVS]
    return "\n".join(lines) + "\n"


def group_cases(cases):
    """(axes, tol, method) -> set of allowed outcomes (assign tuple or 'AlignDatasetError')."""
    allowed = defaultdict(set)
    for c in cases:
        key = (json.dumps(c["axes"]), c["tol"], c["method"])
        if c["outcome"] == "done":
            allowed[key].add(json.dumps(c["assign"]))
        else:
            allowed[key].add("AlignDatasetError")
    return allowed


def unit_align(axes, tol, method):
    """Real create_aligned_global_axes on a provider object whose axes are the given ones."""
    import numpy as np
    from glotaran.optimization.data_provider import AlignDatasetError, DataProviderLinked
    p = DataProviderLinked.__new__(DataProviderLinked)
    # a dataset whose points all lie on integer coordinates keeps an integer-typed axis (as loaded data often have)
    p._global_axes = {f"d{i}": (np.array([a // 2 for a in ax], dtype=int) if all(a % 2 == 0 for a in ax) else np.array(ax, dtype=float) / 2)
                      for i, ax in enumerate(axes)}
    sch = SimpleNamespace(clp_link_tolerance=tol / 2, clp_link_method=method)
    try:
        res = p.create_aligned_global_axes(sch)
    except AlignDatasetError:
        return "AlignDatasetError"
    out = []
    for i in range(len(axes)):
        vals = [float(v) * 2 for v in res[f"d{i}"]]
        if any(v != int(v) for v in vals):
            return json.dumps(vals)
        out.append([int(v) for v in vals])
    return json.dumps(out)


def e2e_case(axes, tol, method, rng, weighted):
    nm = 2
    datasets = []
    for i, ax in enumerate(axes):
        data = [[(i + 1) * 100 + m * 10 + g + rng.randint(0, 3) for g in range(len(ax))] for m in range(nm + (i % 2))]
        n_model = len(data)
        c0 = rng.randint(0, 3)
        idx = rng.random() < 0.4        # index-dependent matrices: the stacked problem must take the matrix of the dataset's OWN index
        if idx:
            cols = [[[1] * n_model, [c0 + g + j * (g + 1) for j in range(n_model)]] for g in range(len(ax))]
        else:
            cols = [[1] * n_model, [c0 + j for j in range(n_model)]]   # always full column rank
        w = [[rng.randint(1, 3) for _ in ax] for _ in range(n_model)] if i in weighted else []
        datasets.append({"label": f"ds{i}", "group": "default", "axis": [a / 2 for a in ax], "data": data, "scale": 1, "weight": w,
                         "mcs": [{"scale": 1, "labels": ["a", "b"], "idx": idx, "cols": cols}]})
    return {"groups": [{"label": "default", "link": True}], "datasets": datasets, "relations": [], "constraints": [], "penalties": [],
            "weights": [], "tol": tol / 2, "method": method}


def e2e_check(chk: Check, axes, tol, method, allowed, rng):
    import numpy as np
    from glotaran.optimization.data_provider import AlignDatasetError
    from glotaran.optimization.optimize import optimize
    from .lattice import build, objective
    weighted = {i for i in range(len(axes)) if rng.random() < 0.4}
    case = e2e_case(axes, tol, method, rng, weighted)
    key = f"ClpLink[e2e]: axes={axes} tol={tol} method={method}"
    rep = {"engine": "c09-e2e", "axes": axes, "tol": tol, "method": method, "allowed": sorted(allowed), "case": case}
    chk.evaluations += 1
    try:
        with warnings.catch_warnings():
            warnings.simplefilter("ignore")
            pen, o = objective(build(case))
    except AlignDatasetError:
        if "AlignDatasetError" not in allowed:
            chk.violation(key, f"AlignDatasetError raised but the specification allows {sorted(allowed)}", rep)
        return
    if allowed == {"AlignDatasetError"}:
        chk.violation(key, "alignment merges two points of one dataset but no AlignDatasetError was raised", rep)
        return
    dp = o._optimization_groups[0]._data_provider
    aligned = [float(v) * 2 for v in dp.aligned_global_axis]
    # members per aligned point from the implementation
    impl_assign = [[None] * len(ax) for ax in axes]
    labels = [d["label"] for d in case["datasets"]]
    total_cols = 0
    for i, q in enumerate(aligned):
        glabel = dp.get_aligned_group_label(i)
        members = dp.group_definitions[glabel]
        idxs = [int(v) for v in dp.get_aligned_dataset_indices(i)]
        if len(members) != len(idxs):
            chk.violation(key, f"aligned index {i}: {len(members)} datasets but {len(idxs)} indices", rep)
            return
        exp_data = []
        exp_w = []
        for lab, li in zip(members, idxs):
            di = labels.index(lab)
            impl_assign[di][li] = int(q) if q == int(q) else q
            col = [row[li] for row in case["datasets"][di]["data"]]
            w = [row[li] for row in case["datasets"][di]["weight"]] if case["datasets"][di]["weight"] else [1] * len(col)
            exp_data += [c * ww for c, ww in zip(col, w)]
            exp_w += w
            total_cols += 1
        got = [float(v) for v in dp.get_aligned_data(i)]
        if got != [float(v) for v in exp_data]:
            chk.violation(key, f"stacked data at aligned point {q / 2}: {got}, expected the columns of {list(zip(members, idxs))} = {exp_data}", rep)
        gw = dp.get_aligned_weight(i)
        anyw = any(case["datasets"][labels.index(lab)]["weight"] for lab in members)
        if anyw != (gw is not None) or (gw is not None and [float(v) for v in gw] != [float(v) for v in exp_w]):
            chk.violation(key, f"stacked weight at aligned point {q / 2}: {None if gw is None else list(gw)}, expected {exp_w if anyw else None}", rep)
    if aligned != sorted(set(aligned)):
        chk.violation(key, f"aligned axis not strictly increasing: {aligned}", rep)
    if total_cols != sum(len(ax) for ax in axes) or any(v is None for a in impl_assign for v in a):
        chk.violation(key, f"not every data column enters the stacked problem exactly once: assignment {impl_assign}", rep)
        return
    if json.dumps(impl_assign) not in allowed:
        chk.violation(key, f"assignment {impl_assign} not allowed by the specification: {sorted(allowed)}", rep)
        return
    # clp sharing and original coordinates in the result
    try:
        with warnings.catch_warnings():
            warnings.simplefilter("ignore")
            res = optimize(build(case, max_nfev=1), verbose=False, raise_exception=True)
    except Exception as ex:  # noqa: BLE001
        # rank-deficient stacked problems are outside the premise of the linear solver (D8)
        chk.skip("e2e optimize raised (rank deficient stacked problem, D8): " + type(ex).__name__)
        return
    clp_at = {}
    for di, d in enumerate(case["datasets"]):
        rd = res.data[d["label"]]
        if [float(v) for v in rd.coords["spectral"].values] != [float(v) for v in d["axis"]]:
            chk.violation(key, f"result of {d['label']} not reported under its original coordinates: {rd.coords['spectral'].values.tolist()} vs {d['axis']}", rep)
            continue
        for li, x in enumerate(d["axis"]):
            clp_at[(di, li)] = rd.clp.sel(spectral=x).values
            mat = rd.matrix.sel(spectral=x).transpose("time", "clp_label").values if "spectral" in rd.matrix.dims else rd.matrix.transpose("time", "clp_label").values
            want_mat = np.array(d["mcs"][0]["cols"][li] if d["mcs"][0]["idx"] else d["mcs"][0]["cols"], dtype=float).T
            if not np.array_equal(mat, want_mat):
                chk.violation(key, f"{d['label']} at {x}: reported matrix {mat.tolist()} is not the matrix of this index {want_mat.tolist()}", rep)
            fit = mat @ np.array([float(rd.clp.sel(spectral=x, clp_label=l)) for l in rd.matrix.coords["clp_label"].values])
            r = rd.residual.sel(spectral=x).values
            w = np.array([row[li] for row in d["weight"]], dtype=float) if d["weight"] else 1.0
            datacol = np.array([row[li] for row in d["data"]], dtype=float)
            if not np.allclose(datacol - fit, r, atol=1e-8):
                chk.violation(key, f"{d['label']} at {x}: residual {r.tolist()} != data - matrix*clp {(datacol - fit).tolist()} (column not reported under its own coordinate)", rep)
    pts = list(clp_at)
    for a in range(len(pts)):
        for b in range(a + 1, len(pts)):
            pa, pb = pts[a], pts[b]
            if pa[0] == pb[0]:
                continue
            same = impl_assign[pa[0]][pa[1]] == impl_assign[pb[0]][pb[1]]
            eq = bool(np.allclose(clp_at[pa], clp_at[pb], rtol=1e-12, atol=1e-12))
            if same and not eq:
                chk.violation(key, f"points {pa} and {pb} are aligned to the same point but their clps differ: {clp_at[pa]} vs {clp_at[pb]}", rep)
    chk.traces += 1


def run(tier: str, replay=None) -> int:
    chk = Check("C09", tier)
    rng = random.Random(seed())
    chk.rule = ("all axis sets of 2 (3 in thorough) datasets on a half-step grid x tolerances 0/below/at/above spacing x 3 methods, every terminal state of "
                "spec/ClpLink.tla; non-trivial = at least one point is merged onto an earlier aligned point or the alignment is refused; distinct = distinct (axes, tol, method)")
    chk.assumptions = ["D3: ties between equally near aligned points may be resolved either way",
                       "axes are strictly increasing; positions on a half-step grid, coordinates = position/2 (exact in binary floating point)",
                       "unit level calls the real create_aligned_global_axes/align_index on a provider object whose _global_axes were set by the harness",
                       "trusted: TLC, CommunityModules Json"]
    if replay:
        r = replay["replay"]
        if r["engine"] == "c09-trace":
            from . import c09_trace
            c09_trace.replay(chk, r)
        elif r["engine"] == "c09-unit":
            got = unit_align(r["axes"], r["tol"], r["method"])
            if got not in set(r["allowed"]):
                chk.violation(replay["key"], f"implementation gives {got}; specification allows {r['allowed']}", r)
        else:
            e2e_check(chk, r["axes"], r["tol"], r["method"], set(r["allowed"]), random.Random(seed()))
        return chk.finish()
    if tier == "quick":
        plans = [(list(range(7)), 3, 2, [0, 1, 2, 3]), (list(range(5)), 2, 3, [0, 1, 2])]     # 3 datasets: a moved point can mislead a later dataset
        n_e2e = 400
    else:
        plans = [(list(range(7)), 3, 2, [0, 1, 2, 3]), (list(range(6)), 2, 3, [0, 1, 2, 3]), (list(range(9)), 4, 2, [0, 1, 2])]
        n_e2e = 6000
    methods = ["nearest", "forward", "backward"]
    for positions, maxlen, nds, tols in plans:
        res = run_tlc("ClpLink", cfg(positions, maxlen, nds, tols, methods), workers=8, timeout=3000)
        require_actions(res, ["AlignPoint", "FinishDataset"])
        chk.add_tlc(res, f"ClpLink[pos={len(positions)},maxlen={maxlen},datasets={nds}]")
        em = run_tlc("ClpLinkEmit", cfg(positions, maxlen, nds, tols, methods, emit=True), workers=1, timeout=3000, coverage=False)
        cases = printed_json(em["stdout"], "CASE")
        if not cases:
            raise MachineryError("ClpLinkEmit: no cases")
        allowed = group_cases(cases)
        keys = sorted(allowed)
        for (axes_s, tol, method) in keys:
            axes = json.loads(axes_s)
            al = allowed[(axes_s, tol, method)]
            got = unit_align(axes, tol, method)
            chk.evaluations += 1
            merged = any(a != axes_s for a in al)
            if merged:
                chk.nontriv((axes_s, tol, method))
            if got not in al:
                # stable key per cause: method + whether an allowed merge was missed or a forbidden one made
                chk.violation(f"ClpLink[unit]: method={method} axes={axes} tol={tol}",
                              f"create_aligned_global_axes gives {got}; specification allows {sorted(al)} (coordinates are positions/2, tolerance {tol / 2})",
                              {"engine": "c09-unit", "axes": axes, "tol": tol, "method": method, "allowed": sorted(al)})
        chk.traces += len(keys)
        for (axes_s, tol, method) in rng.sample(keys, min(n_e2e, len(keys))):
            e2e_check(chk, json.loads(axes_s), tol, method, allowed[(axes_s, tol, method)], rng)
        k = keys[len(keys) // 3]
        chk.sample({"axes": json.loads(k[0]), "tol": k[1], "method": k[2], "allowed": sorted(allowed[k])})
    from . import c09_trace
    c09_trace.run(chk, tier)        # code -> spec: recorded alignments of real providers (driver beyond the bounds + repository tests)
    return chk.finish()
