"""C17 — the real-code side of spec/Persist.tla: a temp tree, in-memory objects, one method per action, the projection of the
real state (files, stored references) onto the specification's, and the harness's own value comparisons."""
from __future__ import annotations

import math
import os
import shutil
import tempfile
import warnings
from pathlib import Path, PurePosixPath

import numpy as np

from .core import MachineryError

FILTER = ["fitted_data", "residual"]
RESULT_FILE_TOKENS = {"result.yml": "result", "scheme.yml": "scheme", "model.yml": "model", "initial_parameters.csv": "p_init",
                      "optimized_parameters.csv": "p_opt", "parameter_history.csv": "phist", "optimization_history.csv": "ohist",
                      "result.md": "md", "m.yml": "model", "s.yml": "scheme", "p.csv": "params", "data.nc": "data_nc",
                      "data.ascii": "data_ascii"}
RESULT_REF_FIELDS = ["scheme", "initial_parameters", "optimized_parameters", "parameter_history", "optimization_history", "data"]
SCHEME_REF_FIELDS = ["model", "parameters", "data"]


# ------------------------------------------------------------------------------------------------ fixtures
MODEL_YML = """
default_megacomplex: decay
dataset_groups:
  default:
    link_clp: false
dataset:
  d1:
    megacomplex: [m1]
    initial_concentration: j1
    irf: irf1
megacomplex:
  m1:
    k_matrix: [k1]
k_matrix:
  k1:
    matrix:
      (s2, s1): rates.k1
      (s2, s2): rates.k2
initial_concentration:
  j1:
    compartments: [s1, s2]
    parameters: [inputs.1, inputs.0]
irf:
  irf1:
    type: gaussian
    center: irf.center
    width: irf.width
"""
PARAMETERS_YML = """
rates:
  - [k1, 0.55]
  - [k2, 0.12]
inputs:
  - ["1", 1, {vary: false}]
  - ["0", 0, {vary: false}]
irf:
  - [center, 0.4]
  - [width, 0.2, {min: 0.01}]
"""


def make_fixture():
    """A small, seeded, real optimisation problem (6 x 4 data): -> (model, parameters, dataset)."""
    import xarray as xr
    from glotaran.io import load_model, load_parameters
    from glotaran.simulation import simulate
    model = load_model(MODEL_YML, format_name="yml_str")
    parameters = load_parameters(PARAMETERS_YML, format_name="yml_str")
    time = np.array([-0.5, 0.0, 0.5, 1.0, 2.5, 6.0])
    spectral = np.array([600.0, 620.5, 641.0, 660.25])
    clp = xr.DataArray([[1.0, 0.3], [0.7, 0.6], [0.2, 1.1], [0.05, 0.4]], coords=[("spectral", spectral), ("clp_label", ["s1", "s2"])])
    ds = simulate(model, "d1", parameters, {"time": time, "spectral": spectral}, clp=clp, noise=True, noise_std_dev=1e-2, noise_seed=7)
    return model, parameters, ds


def make_result(nfev=4):
    from glotaran.optimization.optimize import optimize
    from glotaran.project import Scheme
    model, parameters, ds = make_fixture()
    # start away from the truth so that the optimiser moves and histories have several rows
    start = parameters.copy()
    start.get("rates.k1").value = 0.7
    start.get("irf.center").value = 0.3
    # every scalar option differs from its default: an option that is not written comes back as the default and is noticed
    scheme = Scheme(model, start, {"d1": ds}, maximum_number_function_evaluations=nfev, clp_link_tolerance=0.5, clp_link_method="backward",
                    add_svd=False, ftol=1e-7, gtol=1e-9, xtol=1e-6)
    with warnings.catch_warnings():
        warnings.simplefilter("ignore")
        return optimize(scheme, verbose=False, raise_exception=True)


def make_result_from_loaded_scheme(nfev=2):
    """The scheme of this result was LOADED from a scheme file (its source_path points outside any result folder):
    a saved result must still be self contained."""
    import tempfile
    from pathlib import Path
    from glotaran.io import load_scheme, save_dataset, save_model, save_parameters, save_scheme
    from glotaran.optimization.optimize import optimize
    from glotaran.project import Scheme
    model, parameters, ds = make_fixture()
    start = parameters.copy()
    start.get("rates.k1").value = 0.7
    src = Path(tempfile.mkdtemp(prefix="verif_c17_schemesrc_"))
    try:
        save_model(model, src / "m.yml")
        save_parameters(start, src / "p.csv")
        save_dataset(ds, src / "d1.nc")
        save_scheme(Scheme(model, start, {"d1": ds}, maximum_number_function_evaluations=nfev), src / "my_scheme.yml")
        scheme = load_scheme(src / "my_scheme.yml")
        with warnings.catch_warnings():
            warnings.simplefilter("ignore")
            return optimize(scheme, verbose=False, raise_exception=True)
    finally:
        import shutil
        shutil.rmtree(src, ignore_errors=True)      # the source files are gone: the saved result must not need them


# ------------------------------------------------------------------------------------------------ comparisons
def float_bits_equal(a, b) -> bool:
    a = np.asarray(a)
    b = np.asarray(b)
    if a.shape != b.shape:
        return False
    if a.dtype.kind in "fc" or b.dtype.kind in "fc":
        try:
            a64, b64 = a.astype(np.float64), b.astype(np.float64)
        except (TypeError, ValueError):
            return False
        return bool(np.all((a64 == b64) | (np.isnan(a64) & np.isnan(b64))))
    return bool(np.array_equal(a, b))


def scalar_equal(a, b) -> bool:
    if isinstance(a, (float, np.floating)) or isinstance(b, (float, np.floating)):
        try:
            return float_bits_equal(float(a), float(b))
        except (TypeError, ValueError):
            return False
    if isinstance(a, (list, tuple)) and isinstance(b, (list, tuple)):
        return len(a) == len(b) and all(scalar_equal(x, y) for x, y in zip(a, b))
    return a == b


def parameters_diff(want, got) -> list[str]:
    from .c16 import bool_equal, num_equal
    w = [p.as_dict() for p in want.all()]
    g = [p.as_dict() for p in got.all()]
    if [x["label"] for x in w] != [x["label"] for x in g]:
        return [f"labels {[x['label'] for x in g]} instead of {[x['label'] for x in w]}"]
    out = []
    for a, b in zip(w, g):
        for col in ("value", "standard_error", "minimum", "maximum"):
            if not num_equal(a[col], b[col]):
                out.append(f"{a['label']}.{col}: {b[col]!r} instead of {a[col]!r}")
        for col in ("vary", "non_negative"):
            if not bool_equal(a[col], b[col]):
                out.append(f"{a['label']}.{col}: {b[col]!r} instead of {a[col]!r}")
        if a["expression"] != b["expression"]:
            out.append(f"{a['label']}.expression: {b['expression']!r} instead of {a['expression']!r}")
    return out


def dataset_diff(want, got, only=None, ignore_attrs=("source_path", "loader")) -> list[str]:
    """Bit-equality of an xarray Dataset (variables, dims, dtypes, values, coordinates, attributes)."""
    out = []
    names = list(only) if only is not None else list(want.data_vars)
    if sorted(got.data_vars) != sorted(names):
        out.append(f"variables {sorted(got.data_vars)} instead of {sorted(names)}")
    for n in names:
        if n not in got.data_vars:
            continue
        a, b = want[n], got[n]
        if a.dims != b.dims:
            out.append(f"{n}: dims {b.dims} instead of {a.dims}")
        elif a.dtype != b.dtype:
            out.append(f"{n}: dtype {b.dtype} instead of {a.dtype}")
        elif not float_bits_equal(a.values, b.values):
            out.append(f"{n}: values differ (max abs difference {_maxdiff(a.values, b.values)})")
        if {k: _plain(v) for k, v in a.attrs.items()} != {k: _plain(v) for k, v in b.attrs.items()}:
            out.append(f"{n}: variable attributes {dict(b.attrs)} instead of {dict(a.attrs)}")
    want_coords = set(want[names].coords) if names else set(want.coords)
    for c in sorted(want_coords | set(got.coords)):
        if c not in got.coords or c not in want_coords:
            out.append(f"coordinate {c}: {'missing' if c not in got.coords else 'unexpected'}")
        elif want[c].dtype.kind != got[c].dtype.kind and not (want[c].dtype.kind in "OU" and got[c].dtype.kind in "OU"):
            out.append(f"coordinate {c}: dtype {got[c].dtype} instead of {want[c].dtype}")
        elif not float_bits_equal(want[c].values, got[c].values):
            out.append(f"coordinate {c}: values differ")
    wa = {k: v for k, v in want.attrs.items() if k not in ignore_attrs}
    ga = {k: v for k, v in got.attrs.items() if k not in ignore_attrs}
    if only is None and set(wa) != set(ga):
        out.append(f"attributes {sorted(ga)} instead of {sorted(wa)}")
    for k in wa:
        if k in ga and not scalar_equal(_plain(wa[k]), _plain(ga[k])):
            out.append(f"attribute {k}: {ga[k]!r} instead of {wa[k]!r}")
    return out


def _plain(v):
    if isinstance(v, np.ndarray):
        return v.tolist()
    if isinstance(v, np.generic):
        return v.item()
    return v


def _maxdiff(a, b):
    try:
        return float(np.nanmax(np.abs(np.asarray(a, dtype=float) - np.asarray(b, dtype=float))))
    except Exception:  # noqa: BLE001
        return "n/a"


def norm_spec(x):
    """D9: YAML has no tuple type - sequences are compared as sequences; tuple dict keys stay tuples."""
    if isinstance(x, dict):
        return {k: norm_spec(v) for k, v in x.items()}
    if isinstance(x, (list, tuple)):
        return [norm_spec(v) for v in x]
    if isinstance(x, (np.floating, np.integer)):
        return x.item()
    return x


def model_diff(want, got) -> list[str]:
    a, b = norm_spec(want.as_dict()), norm_spec(got.as_dict())
    out = []
    _walk_diff(a, b, "", out)
    return out


def _walk_diff(a, b, path, out):
    if isinstance(a, dict) and isinstance(b, dict):
        for k in sorted(set(a) | set(b), key=repr):
            if k not in a:
                out.append(f"{path}/{k}: unexpected {b[k]!r}")
            elif k not in b:
                out.append(f"{path}/{k}: missing (was {a[k]!r})")
            else:
                _walk_diff(a[k], b[k], f"{path}/{k}", out)
    elif isinstance(a, list) and isinstance(b, list) and len(a) == len(b):
        for i, (x, y) in enumerate(zip(a, b)):
            _walk_diff(x, y, f"{path}[{i}]", out)
    elif not _leaf_equal(a, b):
        out.append(f"{path}: {b!r} instead of {a!r}")


def _leaf_equal(a, b):
    if isinstance(a, bool) or isinstance(b, bool):
        return a is b
    if isinstance(a, (int, float)) and isinstance(b, (int, float)):
        return (a == b) or (isinstance(a, float) and isinstance(b, float) and math.isnan(a) and math.isnan(b))
    return a == b


RESULT_SCALARS = ["number_of_function_evaluations", "success", "termination_reason", "glotaran_version", "free_parameter_labels",
                  "chi_square", "degrees_of_freedom", "number_of_clps", "number_of_residuals", "number_of_jacobian_evaluations",
                  "number_of_free_parameters", "optimality", "reduced_chi_square", "root_mean_square_error"]
SCHEME_SCALARS = ["clp_link_tolerance", "clp_link_method", "maximum_number_function_evaluations", "add_svd", "ftol", "gtol", "xtol",
                  "optimization_method", "result_path"]


def result_diff(orig, loaded, data_token: str) -> dict[str, list[str]]:
    """field -> differences between the loaded result and the optimisation result it was saved from."""
    d: dict[str, list[str]] = {}

    def put(k, v):
        if v:
            d[k] = v
    put("statistics", [f"{k}: {getattr(loaded, k)!r} instead of {getattr(orig, k)!r}" for k in RESULT_SCALARS
                       if not scalar_equal(getattr(orig, k), getattr(loaded, k))])
    put("optimized_parameters", parameters_diff(orig.optimized_parameters, loaded.optimized_parameters))
    put("initial_parameters", parameters_diff(orig.initial_parameters, loaded.initial_parameters))
    put("scheme.parameters", parameters_diff(orig.scheme.parameters, loaded.scheme.parameters))
    put("scheme.model", model_diff(orig.scheme.model, loaded.scheme.model))
    put("scheme.options", [f"{k}: {getattr(loaded.scheme, k)!r} instead of {getattr(orig.scheme, k)!r}" for k in SCHEME_SCALARS
                           if not scalar_equal(getattr(orig.scheme, k), getattr(loaded.scheme, k))])
    hp = []
    if list(orig.parameter_history.parameter_labels) != list(loaded.parameter_history.parameter_labels):
        hp.append(f"labels {loaded.parameter_history.parameter_labels} instead of {orig.parameter_history.parameter_labels}")
    else:
        a = np.array(orig.parameter_history.parameters, dtype=float)
        b = np.array(loaded.parameter_history.parameters, dtype=float)
        if a.shape != b.shape:
            hp.append(f"shape {b.shape} instead of {a.shape}")
        elif not float_bits_equal(a, b):
            n = int(np.sum(~((a == b) | (np.isnan(a) & np.isnan(b)))))
            hp.append(f"{n} of {a.size} entries differ (max abs difference {_maxdiff(a, b)})")
    # an equal history behaves like the saved one: the loaded result's parameters can be recorded into it (found by ParamHistory.tla, X04)
    import copy as _copy
    try:
        h2 = _copy.deepcopy(loaded.parameter_history)
        n0 = h2.number_of_records
        h2.append(loaded.optimized_parameters, 99)
        if h2.number_of_records != n0 + 1:
            hp.append("appending the loaded parameters to the loaded history does not add a record")
    except Exception as ex:  # noqa: BLE001
        hp.append(f"appending the loaded parameters to the loaded history raises {type(ex).__name__}: {str(ex)[:120]}")
    put("parameter_history", hp)
    ho = []
    a, b = orig.optimization_history.data, loaded.optimization_history.data
    if list(a.columns) != list(b.columns) or a.shape != b.shape:
        ho.append(f"columns/shape {list(b.columns)} {b.shape} instead of {list(a.columns)} {a.shape}")
    elif not float_bits_equal(a.to_numpy(dtype=float), b.to_numpy(dtype=float)) or list(a.index) != list(b.index):
        ho.append("values or index differ")
    put("optimization_history", ho)
    dd = []
    if sorted(orig.data) != sorted(loaded.data):
        dd.append(f"datasets {sorted(loaded.data)} instead of {sorted(orig.data)}")
    for label in orig.data:
        if label in loaded.data:
            only = FILTER if data_token == "d_min" else None
            dd += [f"{label}: {x}" for x in dataset_diff(orig.data[label], loaded.data[label], only=only)]
            if sorted(loaded.scheme.data) == sorted(orig.data):
                # the scheme of a saved result holds the same (saved) datasets
                dd += [f"scheme.data[{label}]: {x}" for x in dataset_diff(orig.data[label], loaded.scheme.data[label], only=only)]
    put("data", dd)
    return d


# ------------------------------------------------------------------------------------------------ the world
class World:
    """Temp tree root/{A,B,C,S,sub} + the in-memory objects of spec/Persist.tla's mem."""

    def __init__(self, family: str, orig=None, make=None):
        self.tmp = Path(tempfile.mkdtemp(prefix="verif_c17_")).resolve()
        self.root = self.tmp / "w"
        (self.root / "sub").mkdir(parents=True)
        (self.root / "S").mkdir()
        self.home = os.getcwd()
        os.chdir(self.root)
        self.cwd = "root"
        self.family = family
        self.result = None
        self.model = self.params = self.dataset = None
        from glotaran.io import load_dataset, load_model, load_parameters, save_dataset, save_model, save_parameters
        with warnings.catch_warnings():
            warnings.simplefilter("ignore")
            m, p, ds = make_fixture()
            self.ref_model, self.ref_params, self.ref_dataset = m, p, ds
            save_parameters(p, self.root / "S" / "p.csv")
            if family == "parts":
                save_model(m, self.root / "S" / "m.yml")
                save_dataset(ds, self.root / "S" / "data.nc")
                self.model = load_model(self.root / "S" / "m.yml")
                self.dataset = load_dataset(self.root / "S" / "data.nc")
            self.params = load_parameters(self.root / "S" / "p.csv")
            if family == "results":
                make = make or make_result
                self.orig = orig if orig is not None else make()
                self.result = make()

    def close(self):
        os.chdir(self.home)
        shutil.rmtree(self.tmp, ignore_errors=True)

    # -- paths
    def cwd_path(self) -> Path:
        return self.root if self.cwd == "root" else self.root / self.cwd

    def spell(self, path: Path, kind: str) -> str:
        if kind.startswith("abs"):
            return str(path)
        return os.path.relpath(path, self.cwd_path())

    def target(self, loc: str, kind: str, name: str) -> str:
        p = self.root / loc if (kind.endswith("_dir") and name == "result.yml") else self.root / loc / name
        return self.spell(p, kind)

    # -- actions
    def execute(self, act: dict):
        from glotaran.io import (load_dataset, load_model, load_result, load_scheme, save_dataset, save_model, save_result,
                                 save_scheme)
        from glotaran.io.interface import SavingOptions
        from glotaran.project import Scheme
        op, loc, kind, arg = act["op"], act["loc"], act["kind"], act["arg"]
        with warnings.catch_warnings():
            warnings.simplefilter("ignore")
            if op == "SaveResult":
                opts = SavingOptions(data_filter=FILTER if arg in ("minimal", "filter") else None, report=arg in ("default", "filter"))
                t = self.target(loc, kind, "result.yml")
                save_result(self.result, t, allow_overwrite=True, saving_options=opts)
                return {"target": t}
            if op == "LoadResult":
                t = self.target(loc, kind, "result.yml")
                self.result = load_result(t)
                return {"target": t}
            if op == "SaveModel":
                t = self.target(loc, kind, "m.yml")
                save_model(self.model, t, allow_overwrite=True)
                return {"target": t}
            if op == "LoadModel":
                t = self.target(loc, kind, "m.yml")
                self.model = load_model(t)
                return {"target": t}
            if op == "SaveDataset":
                t = self.target(loc, kind, f"data.{arg}")
                save_dataset(self.dataset, t, allow_overwrite=True)
                return {"target": t}
            if op == "LoadDataset":
                t = self.target(loc, kind, f"data.{arg}")
                self.dataset = load_dataset(t)
                return {"target": t}
            if op == "SaveScheme":
                t = self.target(loc, kind, "s.yml")
                scheme = Scheme(self.model, self.params, {"d1": self.dataset}, maximum_number_function_evaluations=3)
                save_scheme(scheme, t, allow_overwrite=True)
                return {"target": t}
            if op == "LoadScheme":
                t = self.target(loc, kind, "s.yml")
                scheme = load_scheme(t)
                self.loaded_scheme = scheme
                self.model, self.params, self.dataset = scheme.model, scheme.parameters, scheme.data["d1"]
                return {"target": t}
            if op == "MoveFolder":
                shutil.move(str(self.root / loc), str(self.root / arg))
                return {}
            if op == "ChangeCwd":
                self.cwd = arg
                os.chdir(self.cwd_path())
                return {}
        raise MachineryError(f"unknown action {op}")

    # -- projection of the real state
    def observe(self):
        """-> (files: set of (loc, name, token), refs: set of (loc, holder, field, k, loc2, name), problems)."""
        import xarray as xr
        from ruamel.yaml import YAML
        files, refs, problems = set(), set(), []
        for d in sorted(self.root.iterdir()):
            if not d.is_dir() or d.name == "sub":
                continue
            for f in sorted(d.iterdir()):
                if f.is_dir():
                    problems.append(f"unexpected directory {d.name}/{f.name}")
                    continue
                if f.name == "d1.nc":
                    with xr.open_dataset(f) as ds:
                        names = sorted(ds.data_vars)
                    tok = "d_min" if names == sorted(FILTER) else "d_full" if set(FILTER) < set(names) else f"d_other{names}"
                else:
                    tok = RESULT_FILE_TOKENS.get(f.name, "unknown")
                files.add((d.name, f.name, tok))
                if f.name in ("result.yml", "scheme.yml", "s.yml"):
                    spec = YAML(typ="safe").load(f.read_text())
                    for field in (RESULT_REF_FIELDS if f.name == "result.yml" else SCHEME_REF_FIELDS):
                        v = spec.get(field)
                        if isinstance(v, dict):
                            if sorted(v) != ["d1"]:
                                problems.append(f"{d.name}/{f.name}: data keys {sorted(v)}")
                            v = v.get("d1")
                        refs.add((d.name, f.name, field, *self.classify(v)))
        return files, refs, problems

    @staticmethod
    def classify(v):
        if not isinstance(v, str):
            return ("notastring", "", repr(v)[:60])
        if "\\" in v:
            return ("nonposix", "", v)
        p = PurePosixPath(v)
        if p.is_absolute() or (len(v) > 1 and v[1] == ":"):
            return ("abs", "", p.name)
        parts = p.parts
        if len(parts) == 1:
            return ("rel", "", parts[0])
        if len(parts) == 3 and parts[0] == ".." and parts[1] != "..":
            return ("up", parts[1], parts[2])
        return ("other", "", v)
